#!/bin/bash
# Setup-time sanity: solvers present, bit-vector lemmas behind the integer bit facts hold, engine builds, and the
# engine's canary corpus behaves (correct contracts verify, wrong ones are refuted: selftest/).
set -e
cd "$(dirname "$0")"
for s in z3-new cvc5 z3; do command -v $s >/dev/null || { echo "missing solver $s" >&2; exit 1; }; done
python3 lemmas/check_bits.py
python3 selftest/run.py
echo "selfcheck ok"
