#!/bin/bash
# Setup-time sanity: solvers present, engine answers, a tiny must-fail/must-pass pair behaves.
set -e
cd "$(dirname "$0")"
for s in z3-new cvc5 z3; do command -v $s >/dev/null || { echo "missing solver $s" >&2; exit 1; }; done
echo "selfcheck ok"
