package hashz

// Bounded stand-in for C15 (hashz part): digest / HMAC helpers equal the lower-case hex of the crypto/* digests,
// one-shot and stream, for string and []byte forms, on inputs of every length up to past two block sizes.

import (
	"bytes"
	"crypto/hmac"
	"crypto/md5"
	"crypto/sha1"
	"crypto/sha256"
	"crypto/sha512"
	"encoding/hex"
	"fmt"
	"hash"
	"io"
	"testing"
	"testing/iotest"
)

func TestGovcBounded_C15h(t *testing.T) {
	cases, fails := 0, 0
	fail := func(f string, a ...interface{}) {
		fails++
		if fails <= 5 {
			fmt.Printf("GOVC-FAIL %s\n", fmt.Sprintf(f, a...))
		}
	}
	hx := func(b []byte) string { return hex.EncodeToString(b) }
	for n := 0; n <= 300; n++ {
		data := make([]byte, n)
		for i := range data {
			data[i] = byte(i*31 + n)
		}
		orig := append([]byte(nil), data...)
		str := string(data)
		cases++
		type one struct {
			name     string
			gotB     []byte
			gotS     string
			want     string
			gotFromS []byte
		}
		m5 := md5.Sum(data)
		s1 := sha1.Sum(data)
		s224 := sha256.Sum224(data)
		s256 := sha256.Sum256(data)
		s384 := sha512.Sum384(data)
		s512 := sha512.Sum512(data)
		s512224 := sha512.Sum512_224(data)
		s512256 := sha512.Sum512_256(data)
		for _, o := range []one{
			{"Md5", Md5(data), Md5ToString(str), hx(m5[:]), Md5(str)},
			{"Sha1", Sha1(data), Sha1ToString(str), hx(s1[:]), Sha1(str)},
			{"Sha224", Sha224(data), Sha224ToString(str), hx(s224[:]), Sha224(str)},
			{"Sha256", Sha256(data), Sha256ToString(str), hx(s256[:]), Sha256(str)},
			{"Sha384", Sha384(data), Sha384ToString(str), hx(s384[:]), Sha384(str)},
			{"Sha512", Sha512(data), Sha512ToString(str), hx(s512[:]), Sha512(str)},
			{"Sha512_224", Sha512_224(data), Sha512_224ToString(str), hx(s512224[:]), Sha512_224(str)},
			{"Sha512_256", Sha512_256(data), Sha512_256ToString(str), hx(s512256[:]), Sha512_256(str)},
		} {
			if string(o.gotB) != o.want || o.gotS != o.want || string(o.gotFromS) != o.want {
				fail("%s(len %d) = %s / %s, want %s", o.name, n, o.gotB, o.gotS, o.want)
			}
		}
		for hi, hf := range []func() hash.Hash{md5.New, sha1.New, sha256.New, sha512.New} {
			key := data[:n/3]
			mac := hmac.New(hf, key)
			mac.Write(data)
			want := hx(mac.Sum(nil))
			if string(Hmac(key, data, hf)) != want || HmacToString(string(key), str, hf) != want {
				fail("Hmac #%d (len %d) differs", hi, n)
			}
		}
		type st struct {
			name string
			f    func(io.Reader) ([]byte, error)
			want string
		}
		for _, s := range []st{{"Md5Stream", Md5Stream, hx(m5[:])}, {"Sha1Stream", Sha1Stream, hx(s1[:])}, {"Sha256Stream", Sha256Stream, hx(s256[:])}, {"Sha224Stream", Sha224Stream, hx(s224[:])}, {"Sha384Stream", Sha384Stream, hx(s384[:])}, {"Sha512Stream", Sha512Stream, hx(s512[:])}} {
			for ri, mk := range []func() io.Reader{func() io.Reader { return bytes.NewReader(data) }, func() io.Reader { return iotest.OneByteReader(bytes.NewReader(data)) }, func() io.Reader { return iotest.DataErrReader(bytes.NewReader(data)) }} {
				got, err := s.f(mk())
				if err != nil || string(got) != s.want {
					fail("%s(len %d, reader %d) = %s, %v; want %s", s.name, n, ri, got, err, s.want)
				}
			}
		}
		if !bytes.Equal(data, orig) {
			fail("a digest helper modified its input (len %d)", n)
		}
	}
	fmt.Printf("GOVC-BOUNDED name=C15_hashz cases=%d failures=%d bound=\"inputs of every length 0..300; 8 digests + 4 HMACs, one-shot and 3 reader chunkings\"\n", cases, fails)
	if fails > 0 {
		t.Fail()
	}
}
