package strz

// Bounded stand-in for the clauses of C07 that the deductive contracts do not decide
// (round trips through Format/Parse, mixed well-formed escapes). Injected with `go test -overlay`;
// nothing is written into the repository. Labelled "bounded" in the evidence, never counted as proved.

import (
	"bytes"
	"fmt"
	"os"
	"testing"
	"unicode/utf8"
)

func govcBound() int {
	if os.Getenv("VERIF_TIER") == "thorough" {
		return 1
	}
	return 0
}

func TestGovcBounded_C07(t *testing.T) {
	cases, fails := 0, 0
	fail := func(f string, a ...interface{}) {
		fails++
		if fails <= 5 {
			fmt.Printf("GOVC-FAIL %s\n", fmt.Sprintf(f, a...))
		}
	}
	guard := func(what string, in []byte, f func()) {
		defer func() {
			if r := recover(); r != nil {
				fail("%s panics on %q: %v", what, in, r)
			}
		}()
		f()
	}
	// 1. byte-string round trips: every string over an alphabet of interesting bytes up to the bound, plus all pairs of bytes
	alpha := []byte{0, '0', '7', '8', '\\', 'x', 'a', 'A', 0x7f, 0x80, 0xc3, 0xe4, 0xff}
	maxLen := 4 + govcBound()
	var rec func(cur []byte)
	check := func(s []byte) {
		cases++
		guard("Octal round trip", s, func() {
			if got := OctalParseToString(OctalFormat(s)); got != string(s) {
				fail("OctalParse(OctalFormat(%q)) = %q", s, got)
			}
			if got := HexParseToString(HexFormat(s)); got != string(s) {
				fail("HexParse(HexFormat(%q)) = %q", s, got)
			}
			if utf8.Valid(s) {
				if got := UnicodeParseToString(UnicodeFormat(s)); got != string(s) {
					fail("UnicodeParse(UnicodeFormat(%q)) = %q", s, got)
				}
				if got := Utf16ParseToString(Utf16Format(s)); got != string(s) {
					fail("Utf16Parse(Utf16Format(%q)) = %q", s, got)
				}
			}
		})
	}
	rec = func(cur []byte) {
		check(cur)
		if len(cur) == maxLen {
			return
		}
		for _, b := range alpha {
			rec(append(cur, b))
		}
	}
	rec(nil)
	for a := 0; a < 256; a++ {
		for b := 0; b < 256; b++ {
			check([]byte{byte(a), byte(b)})
		}
	}
	// valid UTF-8: every rune class boundary, alone and in pairs
	runes := []rune{0, 'a', 0x7f, 0x80, 0x7ff, 0x800, 0xd7ff, 0xe000, 0xfffd, 0xffff, 0x10000, 0x10ffff, '世', '😀'}
	for _, r1 := range runes {
		for _, r2 := range runes {
			s := []byte(string([]rune{r1, r2}))
			check(s)
		}
	}
	// 2. a well-formed escape between backslash-free text is replaced, the text is preserved
	texts := []string{"", "a", "xyz", "09", "\xff", "é"}
	for _, pre := range texts {
		for _, post := range texts {
			for v := 0; v < 256; v++ {
				cases++
				in := []byte(pre + fmt.Sprintf("\\%03o", v) + post)
				want := pre + string([]byte{byte(v)}) + post
				guard("OctalParse", in, func() {
					if got := OctalParseToString(in); got != want {
						fail("OctalParse(%q) = %q, want %q", in, got, want)
					}
				})
				for _, f := range []string{"\\x%02x", "\\x%02X"} {
					in := []byte(pre + fmt.Sprintf(f, v) + post)
					guard("HexParse", in, func() {
						if got := HexParseToString(in); got != want {
							fail("HexParse(%q) = %q, want %q", in, got, want)
						}
					})
				}
			}
			for _, r := range runes {
				cases++
				want := pre + string(r) + post
				in := []byte(pre + fmt.Sprintf("\\U%08X", r) + post)
				guard("UnicodeParse", in, func() {
					if got := UnicodeParseToString(in); got != want {
						fail("UnicodeParse(%q) = %q, want %q", in, got, want)
					}
				})
				in16 := []byte(pre + string(Utf16Format(string(r))) + post)
				guard("Utf16Parse", in16, func() {
					if got := Utf16ParseToString(in16); got != want {
						fail("Utf16Parse(%q) = %q, want %q", in16, got, want)
					}
				})
			}
		}
	}
	// 3. arbitrary input: no panic, at most len(input) bytes, backslash-free input unchanged
	palpha := []byte{'\\', 'x', 'u', 'U', '0', '7', '8', 'D', 'd', 'C', 'f', 'g'}
	pmax := 5 + govcBound()
	var prec func(cur []byte)
	parsers := []struct {
		name string
		f    func(dst, src []byte) int
	}{{"OctalParse", OctalParse}, {"HexParse", HexParse}, {"UnicodeParse", UnicodeParse}, {"Utf16Parse", Utf16Parse}}
	prec = func(cur []byte) {
		cases++
		for _, p := range parsers {
			guard(p.name, cur, func() {
				dst := make([]byte, len(cur))
				n := p.f(dst, cur)
				if n < 0 || n > len(cur) {
					fail("%s(%q) returned %d", p.name, cur, n)
				} else if bytes.IndexByte(cur, '\\') < 0 && !bytes.Equal(dst[:n], cur) {
					fail("%s(%q) changed backslash-free input to %q", p.name, cur, dst[:n])
				}
			})
		}
		if len(cur) == pmax {
			return
		}
		for _, b := range palpha {
			prec(append(cur, b))
		}
	}
	prec(nil)
	// surrogate handling: every pair of \uXXXX escapes over class representatives, with prefix text
	units := []int{0x0041, 0xd7ff, 0xd800, 0xdbff, 0xdc00, 0xdfff, 0xe000, 0xffff}
	for _, pre := range []string{"", "ab"} {
		for _, u1 := range units {
			for _, u2 := range units {
				for _, sep := range []string{"", "x"} {
					cases++
					in := []byte(fmt.Sprintf("%s\\u%04X%s\\u%04X!", pre, u1, sep, u2))
					guard("Utf16Parse", in, func() {
						dst := make([]byte, len(in)+8)
						n := Utf16Parse(dst, in)
						if n > len(in) {
							fail("Utf16Parse(%q) produced %d > %d bytes", in, n, len(in))
						}
						if !bytes.HasPrefix(dst[:n], []byte(pre)) || dst[n-1] != '!' {
							fail("Utf16Parse(%q) = %q lost surrounding text", in, dst[:n])
						}
						if bytes.Count(dst[:n], []byte("ab")) > 1 {
							fail("Utf16Parse(%q) = %q duplicated text", in, dst[:n])
						}
					})
				}
			}
		}
	}
	fmt.Printf("GOVC-BOUNDED name=C07 cases=%d failures=%d bound=\"byte strings over 13 bytes len<=%d + all byte pairs + rune-class pairs; parser inputs over 12 bytes len<=%d; 6x6 contexts x all 256 escapes\"\n", cases, fails, maxLen, pmax)
	if fails > 0 {
		t.Fail()
	}
}
