package setz

// Bounded stand-in for C16 clauses outside the contracts: Bits.All (iterator closure), Iter/Range/All agreeing
// on whole histories, Clone independence, String; plus an executable cross-check of the proved methods.

import (
	"fmt"
	"os"
	"sort"
	"testing"
)

type c16kept struct {
	o    *Bits
	snap string
	n    int
}

func TestGovcBounded_C16(t *testing.T) {
	cases, fails := 0, 0
	fail := func(f string, a ...interface{}) {
		fails++
		if fails <= 5 {
			fmt.Printf("GOVC-FAIL %s\n", fmt.Sprintf(f, a...))
		}
	}
	guard := func(what string, f func()) {
		defer func() {
			if r := recover(); r != nil {
				fail("%s panics: %v", what, r)
			}
		}()
		f()
	}
	vals := []uint{0, 1, 63, 64, 65, 127, 128, 130, 200}
	type op struct{ kind, arg int }
	var ops []op
	for i := range vals {
		ops = append(ops, op{0, i}, op{1, i})
	}
	ops = append(ops, op{2, 0}, op{2, 1}, op{3, 0}, op{3, 1}, op{4, 0}, op{4, 1}, op{5, 70}, op{5, 191}, op{5, 300})
	others := [][]uint{{1, 63}, {64, 65, 130, 200, 400}}
	depth := 4
	if os.Getenv("VERIF_TIER") == "thorough" {
		depth = 5
	}
	check := func(b *Bits, model map[uint]bool, seq []op) bool {
		var want []uint
		for v := range model {
			want = append(want, v)
		}
		sort.Slice(want, func(i, j int) bool { return want[i] < want[j] })
		if b.Len() != len(want) || b.Bitmap.Len() != len(want) {
			fail("after %v: Len=%d (bitmap %d), want %d", seq, b.Len(), b.Bitmap.Len(), len(want))
			return false
		}
		var it, rg, al []uint
		iter := b.Iter()
		for iter.Next() {
			it = append(it, iter.Value())
		}
		b.Range(func(v uint) bool { rg = append(rg, v); return true })
		b.All()(func(v uint) bool { al = append(al, v); return true })
		for name, got := range map[string][]uint{"Iter": it, "Range": rg, "All": al} {
			if fmt.Sprint(got) != fmt.Sprint(want) {
				fail("after %v: %s = %v, want %v", seq, name, got, want)
				return false
			}
		}
		for _, v := range []uint{0, 1, 62, 63, 64, 65, 66, 127, 128, 129, 130, 199, 200, 201, 400, 1000} {
			if b.Contains(v) != model[v] {
				fail("after %v: Contains(%d) = %v", seq, v, b.Contains(v))
				return false
			}
		}
		// early stop
		n := 0
		b.Range(func(v uint) bool { n++; return n < 2 })
		if len(want) >= 2 && n != 2 {
			fail("after %v: Range did not stop after the callback returned false (%d calls)", seq, n)
		}
		return true
	}
	var run func(seq []op)
	run = func(seq []op) {
		if len(seq) > 0 {
			cases++
			guard(fmt.Sprint(seq), func() {
				var b Bits
				model := map[uint]bool{}
				var kept []c16kept
				for _, o := range seq {
					switch o.kind {
					case 0:
						v := vals[o.arg]
						if got := b.Add(v); got != !model[v] {
							fail("%v: Add(%d) = %v", seq, v, got)
						}
						model[v] = true
					case 1:
						v := vals[o.arg]
						if got := b.Remove(v); got != model[v] {
							fail("%v: Remove(%d) = %v", seq, v, got)
						}
						delete(model, v)
					case 2, 3, 4:
						var o2 Bits
						om := map[uint]bool{}
						for _, v := range others[o.arg] {
							o2.Add(v)
							om[v] = true
						}
						before := o2.Clone()
						switch o.kind {
						case 2:
							b.Diff(o2)
							for v := range om {
								delete(model, v)
							}
						case 3:
							b.Intersect(o2)
							for v := range model {
								if !om[v] {
									delete(model, v)
								}
							}
						case 4:
							b.Merge(o2)
							for v := range om {
								model[v] = true
							}
						}
						if fmt.Sprint(o2.set) != fmt.Sprint(before.set) {
							fail("%v: the other operand was modified", seq)
						}
						// the operand must also stay untouched by everything done to the receiver LATER (no shared storage)
						kept = append(kept, c16kept{&o2, fmt.Sprint(before.set), o2.Len()})
					case 5:
						c := b.Cap()
						b.Grow(uint(o.arg))
						if b.Cap() < c || b.Cap() <= o.arg {
							fail("%v: Grow(%d) gives Cap %d (was %d)", seq, o.arg, b.Cap(), c)
						}
					}
					for _, kp := range kept {
						if fmt.Sprint(kp.o.set) != kp.snap || kp.o.Len() != kp.n {
							fail("%v: an operand of an earlier Diff/Intersect/Merge changed when the receiver was modified (shared storage)", seq)
							return
						}
					}
					if !check(&b, model, seq) {
						return
					}
				}
				// Clone is independent of its source
				c := b.Clone()
				c.Add(777)
				c.Remove(1)
				check(&b, model, append(seq, op{9, 9}))
			})
		}
		if len(seq) == depth {
			return
		}
		for _, o := range ops {
			run(append(seq, o))
		}
	}
	run(nil)
	fmt.Printf("GOVC-BOUNDED name=C16 cases=%d failures=%d bound=\"all histories of up to %d operations over Add/Remove of {0,1,63,64,65,127,128,130,200}, Diff/Intersect/Merge with a shorter and a longer operand, Grow\"\n", cases, fails, depth)
	if fails > 0 {
		t.Fail()
	}
}
