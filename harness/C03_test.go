package setz

// Bounded stand-in for C03: RoaringBitmap against a set model. The bitmap's own methods dispatch through the
// container interface into a skip list and (at the 4097th value of a bucket) reinterpret memory through
// unsafe.Pointer, which is outside the verified subset; the containers themselves are under contract.

import (
	"fmt"
	"os"
	"sort"
	"testing"
)

func c03sorted(m map[uint32]bool) []uint32 {
	out := make([]uint32, 0, len(m))
	for v := range m {
		out = append(out, v)
	}
	sort.Slice(out, func(i, j int) bool { return out[i] < out[j] })
	return out
}

func c03eq(a, b []uint32) bool {
	if len(a) != len(b) {
		return false
	}
	for i := range a {
		if a[i] != b[i] {
			return false
		}
	}
	return true
}

// c03observe compares every observer with the model; probes are the values whose membership is asked
func c03observe(r *RoaringBitmap, model map[uint32]bool, probes []uint32, stops bool) string {
	want := c03sorted(model)
	if r.Len() != len(want) {
		return fmt.Sprintf("Len %d want %d", r.Len(), len(want))
	}
	for _, p := range probes {
		if r.Contains(p) != model[p] {
			return fmt.Sprintf("Contains(%d) = %v", p, !model[p])
		}
	}
	var got []uint32
	it := r.Iter()
	for it.Next() {
		got = append(got, it.Value())
		if len(got) > len(want)+2 {
			break
		}
	}
	if !c03eq(got, want) {
		return fmt.Sprintf("Iter yields %d values %v.., want %d", len(got), head(got), len(want))
	}
	if it.Next() {
		return "Iter.Next true after exhaustion"
	}
	maxStop := 0
	if stops {
		maxStop = len(want) + 1
	}
	for stop := 0; stop <= maxStop; stop++ {
		n := len(want)
		if stop >= 1 && stop < n {
			n = stop
		}
		got = got[:0]
		r.Range(func(v uint32) bool { got = append(got, v); return len(got) != stop })
		if !c03eq(got, want[:n]) {
			return fmt.Sprintf("Range(stop after %d) yields %d values %v.., want %d", stop, len(got), head(got), n)
		}
		got = got[:0]
		r.All()(func(v uint32) bool { got = append(got, v); return len(got) != stop })
		if !c03eq(got, want[:n]) {
			return fmt.Sprintf("All(stop after %d) yields %d values %v.., want %d", stop, len(got), head(got), n)
		}
	}
	return ""
}

func head(a []uint32) []uint32 {
	if len(a) > 6 {
		return a[:6]
	}
	return a
}

func TestGovcBounded_C03(t *testing.T) {
	cases, fails := 0, 0
	fail := func(f string, a ...interface{}) {
		fails++
		if fails <= 5 {
			fmt.Printf("GOVC-FAIL %s\n", fmt.Sprintf(f, a...))
		}
	}
	thorough := os.Getenv("VERIF_TIER") == "thorough"

	// ---- A: all short histories over values in three buckets (incl. both ends of the uint32 range) ----
	vals := []uint32{0, 1, 65535, 65536, 65537, 1<<32 - 1}
	depth := 5
	if thorough {
		depth = 6
	}
	hist := make([]int, depth)
	var run func(pos, n int)
	run = func(pos, n int) {
		if pos == n {
			cases++
			what := func() string {
				s := "history"
				for _, o := range hist[:n] {
					if o < len(vals) {
						s += fmt.Sprintf(" Add(%d)", vals[o])
					} else {
						s += fmt.Sprintf(" Remove(%d)", vals[o-len(vals)])
					}
				}
				return s
			}
			defer func() {
				if r := recover(); r != nil {
					fail("%s panics: %v", what(), r)
				}
			}()
			var r RoaringBitmap
			model := map[uint32]bool{}
			for _, o := range hist[:n] {
				if o < len(vals) {
					v := vals[o]
					if got := r.Add(v); got != !model[v] {
						fail("%s: Add(%d) returned %v", what(), v, got)
						return
					}
					model[v] = true
				} else {
					v := vals[o-len(vals)]
					if got := r.Remove(v); got != model[v] {
						fail("%s: Remove(%d) returned %v", what(), v, got)
						return
					}
					delete(model, v)
				}
			}
			if msg := c03observe(&r, model, vals, true); msg != "" {
				fail("%s: %s", what(), msg)
			}
			return
		}
		for o := 0; o < 2*len(vals); o++ {
			hist[pos] = o
			run(pos+1, n)
		}
	}
	for n := 0; n <= depth; n++ {
		run(0, n)
	}

	// ---- B: every fill level of a bucket around the array/bitmap threshold, three insertion orders, two buckets,
	//         with a sparse neighbour bucket on each side; then draining the bucket until it disappears ----
	orders := map[string]func(i int) uint32{
		"ascending":   func(i int) uint32 { return uint32(i) },
		"descending":  func(i int) uint32 { return uint32(65535 - i) },
		"interleaved": func(i int) uint32 { return uint32((i * 7919) % 65536) },
	}
	top := 4100
	if thorough {
		top = 4200
	}
	for name, ord := range orders {
		for _, bucket := range []uint32{0, 5, 65535} {
			cases++
			what := fmt.Sprintf("bucket %d filled %s", bucket, name)
			func() {
				defer func() {
					if r := recover(); r != nil {
						fail("%s panics: %v", what, r)
					}
				}()
				var r RoaringBitmap
				model := map[uint32]bool{}
				for _, nb := range []uint32{2, 9} { // sparse neighbours
					v := nb<<16 | 77
					r.Add(v)
					model[v] = true
				}
				var inserted []uint32
				for i := 0; i < top; i++ {
					v := bucket<<16 | ord(i)
					if got := r.Add(v); got != !model[v] {
						fail("%s: Add #%d returned %v", what, i, got)
						return
					}
					model[v] = true
					inserted = append(inserted, v)
					if r.Add(v) {
						fail("%s: second Add #%d returned true", what, i)
						return
					}
					if i >= 4090 || i%512 == 0 {
						probes := []uint32{v, v ^ 1, bucket << 16, bucket<<16 | 65535, 2<<16 | 77, 9<<16 | 78}
						if msg := c03observe(&r, model, probes, false); msg != "" {
							fail("%s after %d values: %s", what, i+1, msg)
							return
						}
					}
				}
				// drain in a different order than filled
				for i := len(inserted) - 1; i >= 0; i -= 2 {
					v := inserted[i]
					if !r.Remove(v) || r.Remove(v) {
						fail("%s: Remove(%d) wrong", what, v)
						return
					}
					delete(model, v)
				}
				if msg := c03observe(&r, model, inserted[:64], false); msg != "" {
					fail("%s half drained: %s", what, msg)
					return
				}
				for i := len(inserted) - 2; i >= 0; i -= 2 {
					v := inserted[i]
					if !r.Remove(v) {
						fail("%s: Remove(%d) returned false", what, v)
						return
					}
					delete(model, v)
					if len(model) <= 6 {
						if msg := c03observe(&r, model, inserted[:8], true); msg != "" {
							fail("%s with %d values left: %s", what, len(model), msg)
							return
						}
					}
				}
				// the bucket is empty now: refill a little
				for i := 0; i < 3; i++ {
					v := bucket<<16 | ord(i)
					if !r.Add(v) {
						fail("%s: re-Add returned false", what)
						return
					}
					model[v] = true
				}
				if msg := c03observe(&r, model, inserted[:8], true); msg != "" {
					fail("%s refilled: %s", what, msg)
				}
			}()
		}
	}
	fmt.Printf("GOVC-BOUNDED name=C03 cases=%d failures=%d bound=\"all histories of up to %d Add/Remove calls over %v (three buckets, both ends of the range) with every observer incl. early stop at every position; every fill level 1..%d of buckets 0, 5 and 65535 in ascending, descending and interleaved order with sparse neighbour buckets, observers at every level from 4091 on, draining to empty and refilling\"\n", cases, fails, depth, vals, top)
	if fails > 0 {
		t.Fail()
	}
}
