package algz

// Bounded stand-in for the clauses of C18 that the contracts do not reach: the returned selections (each item at most
// once, within the limit, attaining the optimum), FindDpSolvers/Best/BestAllowMinOverflow and GetMaximalCliques, each
// against brute-force enumeration of all subsets / all vertex sets.

import (
	"fmt"
	"os"
	"sort"
	"testing"
)

type c18item struct{ id, w, v int }

func TestGovcBounded_C18(t *testing.T) {
	cases, fails := 0, 0
	fail := func(f string, a ...interface{}) {
		fails++
		if fails <= 5 {
			fmt.Printf("GOVC-FAIL %s\n", fmt.Sprintf(f, a...))
		}
	}
	guard := func(what string, f func()) {
		defer func() {
			if r := recover(); r != nil {
				fail("%s panics: %v", what, r)
			}
		}()
		f()
	}
	thorough := os.Getenv("VERIF_TIER") == "thorough"
	maxItems := 6
	if thorough {
		maxItems = 7
	}
	// ---- Knapsack: all item lists of up to maxItems items over weights {0,1,2,5} x values {1,2,3}, all limits 0..7 ----
	ws := []int{0, 1, 2, 5}
	vs := []int{1, 2, 3}
	var lists [][]c18item
	var gen func(cur []c18item)
	gen = func(cur []c18item) {
		lists = append(lists, append([]c18item(nil), cur...))
		if len(cur) == maxItems {
			return
		}
		for _, w := range ws {
			for _, v := range vs {
				// canonical order (non-decreasing (w,v) pairs) keeps the enumeration to multisets
				if n := len(cur); n > 0 && (cur[n-1].w > w || (cur[n-1].w == w && cur[n-1].v > v)) {
					continue
				}
				gen(append(cur, c18item{len(cur), w, v}))
			}
		}
	}
	gen(nil)
	wf := func(i c18item) int { return i.w }
	vf := func(i c18item) int { return i.v }
	for _, items := range lists {
		for limit := 0; limit <= 7; limit++ {
			cases++
			what := fmt.Sprintf("Knapsack(%d, %v)", limit, items)
			guard(what, func() {
				best := 0
				for mask := 0; mask < 1<<len(items); mask++ {
					w, v := 0, 0
					for k := range items {
						if mask>>k&1 == 1 {
							w += items[k].w
							v += items[k].v
						}
					}
					if w <= limit && v > best {
						best = v
					}
				}
				for _, withBreaker := range []bool{false, true} {
					var sel []c18item
					if withBreaker {
						sel = Knapsack(limit, items, wf, vf, func(old, new []c18item) bool { return len(new) < len(old) })
					} else {
						sel = Knapsack(limit, items, wf, vf)
					}
					used := map[int]bool{}
					w, v := 0, 0
					for _, it := range sel {
						if used[it.id] || it.id >= len(items) || items[it.id] != it {
							fail("%s: selection %v uses an item twice or an unknown item", what, sel)
							return
						}
						used[it.id] = true
						w += it.w
						v += it.v
					}
					if w > limit || v != best {
						fail("%s: selection %v has weight %d value %d, optimum is %d", what, sel, w, v, best)
						return
					}
				}
			})
		}
	}
	// ---- FindDpSolvers / Best / BestAllowMinOverflow: values {1,2,3,5,8}, up to maxItems items, maxValue 0..12 ----
	vals := []int{1, 2, 3, 5, 8}
	var vlists [][]c18item
	var vgen func(cur []c18item, from int)
	vgen = func(cur []c18item, from int) {
		vlists = append(vlists, append([]c18item(nil), cur...))
		if len(cur) == maxItems {
			return
		}
		for i := from; i < len(vals); i++ {
			vgen(append(cur, c18item{len(cur), 0, vals[i]}), i)
		}
	}
	vgen(nil, 0)
	for _, items := range vlists {
		for maxValue := 0; maxValue <= 12; maxValue++ {
			for _, over := range []bool{false, true} {
				cases++
				what := fmt.Sprintf("FindDpSolvers(%d, %v, over=%v)", maxValue, items, over)
				guard(what, func() {
					attain := map[int]bool{}
					for mask := 0; mask < 1<<len(items); mask++ {
						s := 0
						for k := range items {
							if mask>>k&1 == 1 {
								s += items[k].v
							}
						}
						attain[s] = true
					}
					minOver := -1
					for s := range attain {
						if s > maxValue && (minOver < 0 || s < minOver) {
							minOver = s
						}
					}
					sol := FindDpSolvers(maxValue, items, vf, over)
					for total, sel := range sol {
						used := map[int]bool{}
						s := 0
						for _, it := range sel {
							if used[it.id] {
								fail("%s: total %d uses item %d twice", what, total, it.id)
								return
							}
							used[it.id] = true
							s += it.v
						}
						if s != total {
							fail("%s: entry %d holds a selection of total %d", what, total, s)
							return
						}
						// (entries above the maximum: only with overflow allowed; the property requires the smallest overshoot
						// to be present, checked below, and does not forbid further, larger overshoots found earlier)
						if total > maxValue && !over {
							fail("%s: entry %d above the maximum although overflow is not allowed", what, total)
							return
						}
					}
					for s := range attain {
						if _, ok := sol[s]; !ok && (s <= maxValue || (over && s == minOver)) {
							fail("%s: attainable total %d has no entry", what, s)
							return
						}
					}
					sum := func(sel []c18item) int {
						s := 0
						for _, it := range sel {
							s += it.v
						}
						return s
					}
					wantBest := 0
					for s := range attain {
						if s <= maxValue && s > wantBest {
							wantBest = s
						}
					}
					if got := sum(sol.Best(maxValue)); got != wantBest {
						fail("%s: Best = %d want %d", what, got, wantBest)
						return
					}
					if over {
						want := wantBest
						if !attain[maxValue] && minOver > 0 {
							want = minOver
						}
						if got := sum(sol.BestAllowMinOverflow(maxValue)); got != want {
							fail("%s: BestAllowMinOverflow = %d want %d", what, got, want)
						}
					}
				})
			}
		}
	}
	// ---- GetMaximalCliques: all undirected simple graphs on up to N vertices (plus isolated vertices) ----
	N := 6
	if thorough {
		N = 7
	}
	for n := 0; n <= N; n++ {
		var pairs [][2]int
		for a := 0; a < n; a++ {
			for b := a + 1; b < n; b++ {
				pairs = append(pairs, [2]int{a, b})
			}
		}
		for em := 0; em < 1<<len(pairs); em++ {
			cases++
			what := fmt.Sprintf("graph n=%d edges=%b", n, em)
			guard(what, func() {
				var g Graph[int]
				adj := make([][]bool, n)
				for a := range adj {
					adj[a] = make([]bool, n)
					g.AddNode(a)
				}
				for k, p := range pairs {
					if em>>k&1 == 1 {
						g.AddUndirectedEdge(p[0], p[1])
						adj[p[0]][p[1]], adj[p[1]][p[0]] = true, true
					}
				}
				isClique := func(mask int) bool {
					for a := 0; a < n; a++ {
						for b := a + 1; b < n; b++ {
							if mask>>a&1 == 1 && mask>>b&1 == 1 && !adj[a][b] {
								return false
							}
						}
					}
					return true
				}
				want := map[int]int{}
				for mask := 1; mask < 1<<n; mask++ {
					if !isClique(mask) {
						continue
					}
					maximal := true
					for v := 0; v < n; v++ {
						if mask>>v&1 == 0 && isClique(mask|1<<v) {
							maximal = false
						}
					}
					if maximal {
						want[mask] = 0
					}
				}
				if n == 0 {
					want[0] = 0 // the empty graph has the empty clique (Bron-Kerbosch reports R = {} when P and X are empty)
				}
				got := g.GetMaximalCliques()
				for _, c := range got {
					mask := 0
					cc := append([]int(nil), c...)
					sort.Ints(cc)
					for i, v := range cc {
						if i > 0 && cc[i-1] == v {
							fail("%s: clique %v repeats a vertex", what, c)
							return
						}
						mask |= 1 << v
					}
					if _, ok := want[mask]; !ok {
						fail("%s: %v is not a maximal clique", what, c)
						return
					}
					want[mask]++
				}
				for mask, k := range want {
					if k != 1 {
						fail("%s: maximal clique %b reported %d times", what, mask, k)
						return
					}
				}
			})
		}
	}
	fmt.Printf("GOVC-BOUNDED name=C18 cases=%d failures=%d bound=\"Knapsack: all item multisets of up to %d items over weights {0,1,2,5} x values {1,2,3}, limits 0..7, with and without tie breaker, vs all subsets; FindDpSolvers/Best/BestAllowMinOverflow: all multisets of up to %d items over values {1,2,3,5,8}, maxValue 0..12, overflow on/off, vs all subsets; GetMaximalCliques: all undirected simple graphs on up to %d vertices\"\n", cases, fails, maxItems, maxItems, N)
	if fails > 0 {
		t.Fail()
	}
}
