package randz

// Bounded stand-in for C20 clauses outside the contracts: ParseBase32(Base32(id)) = id on sampled and
// boundary ids, standard numerals, StrGenerator output, CountGenerator monotone and within [Min, Max].

import (
	"fmt"
	"math/rand"
	"os"
	"strconv"
	"testing"
	"time"
	"unicode/utf8"
)

func TestGovcBounded_C20(t *testing.T) {
	cases, fails := 0, 0
	fail := func(f string, a ...interface{}) {
		fails++
		if fails <= 5 {
			fmt.Printf("GOVC-FAIL %s\n", fmt.Sprintf(f, a...))
		}
	}
	guard := func(what string, f func()) {
		defer func() {
			if r := recover(); r != nil {
				fail("%s panics: %v", what, r)
			}
		}()
		f()
	}
	thorough := os.Getenv("VERIF_TIER") == "thorough"
	// 1. base-32 round trip: all ids below 2^17 (2^21 thorough), every power of 32 +-1, every power of two +-1, MaxInt64
	limit := int64(1 << 17)
	if thorough {
		limit = 1 << 21
	}
	var ids []int64
	for i := int64(0); i < limit; i++ {
		ids = append(ids, i)
	}
	for k := uint(0); k < 63; k++ {
		p := int64(1) << k
		ids = append(ids, p-1, p, p+1)
	}
	ids = append(ids, 1<<63-1, 1<<63-2)
	for _, v := range ids {
		if v < 0 {
			continue
		}
		cases++
		id := ID(v)
		guard(fmt.Sprintf("Base32(%d)", v), func() {
			s := id.Base32()
			got, err := ParseBase32([]byte(s))
			if err != nil || got != id {
				fail("ParseBase32(ID(%d).Base32() = %q) = %d, %v", v, s, got, err)
			}
			if id.String() != strconv.FormatInt(v, 10) || id.Base2() != strconv.FormatInt(v, 2) || id.Base36() != strconv.FormatInt(v, 36) {
				fail("numerals of %d differ from strconv", v)
			}
		})
	}
	// 2. every byte value in every position of a 3-byte input
	alpha := map[byte]bool{}
	for i := 0; i < len(encodeBase32Map); i++ {
		alpha[encodeBase32Map[i]] = true
	}
	for pos := 0; pos < 3; pos++ {
		for b := 0; b < 256; b++ {
			cases++
			in := []byte("a0z")
			in[pos] = byte(b)
			_, err := ParseBase32(in)
			if (err == nil) != alpha[byte(b)] || (err != nil && err != ErrInvalidBase32) {
				fail("ParseBase32(%q): err=%v, byte in alphabet=%v", in, err, alpha[byte(b)])
			}
		}
	}
	// 3. IdGenerator: non-negative, time above the random bits, random part below 2^randBit, clamping of randBit
	for rb := -2; rb <= 30; rb++ {
		cases++
		g := NewIdGenerator(time.Now().Add(-12345*time.Millisecond), rb)
		want := rb
		if rb <= 1 {
			want = 16
		}
		if rb > 22 {
			want = 22
		}
		if g.randBit != want {
			fail("NewIdGenerator(randBit=%d) uses %d", rb, g.randBit)
		}
		for k := 0; k < 20; k++ {
			id := g.Generate()
			ms := int64(id) >> uint(g.randBit)
			if id < 0 || ms < 12345 || ms > 12345+60000 {
				fail("IdGenerator(randBit=%d).Generate() = %d: elapsed-ms field %d", rb, id, ms)
			}
		}
	}
	// 4. StrGenerator: exactly n runes from the character set, for several sets including multi-byte runes
	sets := []string{"a", "ab", "abc", CHAR_SET, CHAR_LOWER_SET, "世界", "aé世😀", "0123456789abcdefghijklmnopqrstuvwxyzABCDEFGHIJKLMNOPQRSTUVWXYZ-_"}
	for _, set := range sets {
		in := map[rune]bool{}
		for _, r := range set {
			in[r] = true
		}
		g := NewStrGenerator(set, rand.NewSource(int64(len(set))))
		for n := 0; n <= 70; n++ {
			cases++
			guard(fmt.Sprintf("StrGenerator(%q).Generate(%d)", set, n), func() {
				s := g.Generate(n)
				if utf8.RuneCountInString(s) != n {
					fail("StrGenerator(%q).Generate(%d) = %q has %d runes", set, n, s, utf8.RuneCountInString(s))
				}
				for _, r := range s {
					if !in[r] {
						fail("StrGenerator(%q).Generate(%d) produced %q", set, n, r)
					}
				}
			})
		}
	}
	// 5. CountGenerator: Min <= Generate <= Max, non-decreasing in diff, over small rule sets and all diffs up to past the last period
	params := []int{1, 2, 3, 7}
	idsS := []string{"", "a", "id1", "zz", "x9", "hello", "0"}
	for _, p1 := range []int{3, 10} {
		for _, e1 := range params {
			for _, i1 := range []int{1, 2, 3} {
				for _, m1 := range params {
					for _, p2add := range []int{0, 4, 9} {
						var cg CountGenerator
						cg.AddRule(p1, e1, i1, m1)
						last := p1
						if p2add > 0 {
							cg.AddRule(p1+p2add, m1, i1+1, e1)
							last = p1 + p2add
						}
						for _, id := range idsS {
							prev := 0
							for diff := -1; diff <= last+5; diff++ {
								cases++
								g, lo, hi := cg.Generate(id, diff), cg.Min(diff), cg.Max(diff)
								if g < lo || g > hi {
									fail("CountGenerator rules(%d,%d,%d,%d;+%d) id=%q diff=%d: Generate=%d outside [Min=%d, Max=%d]", p1, e1, i1, m1, p2add, id, diff, g, lo, hi)
								}
								if g < prev {
									fail("CountGenerator rules(%d,%d,%d,%d;+%d) id=%q: Generate(%d)=%d < Generate(%d)=%d", p1, e1, i1, m1, p2add, id, diff, g, diff-1, prev)
								}
								prev = g
							}
						}
					}
				}
			}
		}
	}
	fmt.Printf("GOVC-BOUNDED name=C20 cases=%d failures=%d bound=\"ids 0..%d + powers of two +-1; 256 bytes x 3 positions; randBit -2..30; 8 charsets x n<=70; 288 rule sets x 7 ids x all diffs\"\n", cases, fails, limit-1)
	if fails > 0 {
		t.Fail()
	}
}
