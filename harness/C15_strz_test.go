package strz

// Bounded stand-in for C15 (strz part): differential comparison with strconv / encoding/hex / encoding/base64
// on generated inputs for all bases -1..37 and bit sizes -1..65, string and []byte forms, input not modified;
// IPv4 round trip (sampled in the quick tier, all 2^32 addresses in the thorough tier).

import (
	"bytes"
	"encoding/base64"
	"encoding/hex"
	"fmt"
	"os"
	"strconv"
	"sync"
	"sync/atomic"
	"testing"
)

func TestGovcBounded_C15(t *testing.T) {
	var cases int64
	fails := 0
	var mu sync.Mutex
	fail := func(f string, a ...interface{}) {
		mu.Lock()
		defer mu.Unlock()
		fails++
		if fails <= 5 {
			fmt.Printf("GOVC-FAIL %s\n", fmt.Sprintf(f, a...))
		}
	}
	thorough := os.Getenv("VERIF_TIER") == "thorough"
	// ---- ParseUint vs strconv.ParseUint ----
	var inputs []string
	seen := map[string]bool{}
	add := func(s string) {
		if !seen[s] {
			seen[s] = true
			inputs = append(inputs, s)
		}
	}
	alpha := []string{"0", "1", "7", "9", "a", "f", "z", "Z", "_", "x", "X", "b", "o", "-", "+", " ", "g"}
	var rec func(cur string, n int)
	maxL := 3
	if thorough {
		maxL = 4
	}
	rec = func(cur string, n int) {
		add(cur)
		if n == maxL {
			return
		}
		for _, c := range alpha {
			rec(cur+c, n+1)
		}
	}
	rec("", 0)
	// overflow boundaries for every base and bit size
	for base := 2; base <= 36; base++ {
		for _, bits := range []uint{1, 7, 8, 15, 16, 31, 32, 63, 64} {
			var max uint64 = 1<<bits - 1
			if bits == 64 {
				max = 1<<64 - 1
			}
			s := strconv.FormatUint(max, base)
			add(s)
			add(s + "0")
			add("0" + s)
			add(s[:len(s)-1])
			// max+1 .. max+base in that base (string arithmetic on the last digit / carry via big values)
			if max < 1<<64-1 {
				add(strconv.FormatUint(max+1, base))
				add(strconv.FormatUint(max+2, base))
			} else {
				// 2^64 + d for d = 0..base+3, written by hand: "1" followed by zeros in base form of 2^64
				q, r := max/uint64(base), max%uint64(base)
				// max+1+d = (q*base + r + 1 + d)
				for d := uint64(0); d < uint64(base)+4; d++ {
					hi, lo := q, r+1+d
					hi += lo / uint64(base)
					lo %= uint64(base)
					add(strconv.FormatUint(hi, base) + strconv.FormatUint(lo, base))
				}
			}
		}
	}
	for _, p := range []string{"0x", "0X", "0b", "0B", "0o", "0O", "0", "0_", "0x_", "_", "1_", "1__2", "0x1_f", "0b1_0_1", "0o7_7", "1_000_000", "0_7", "0x_1", "0xg", "08", "09", "0b2", "1_", "_1"} {
		add(p)
		add(p + "1")
		add(p + "ffffffffffffffff")
		add(p + "18446744073709551615")
		add(p + "18446744073709551616")
	}
	for _, s := range inputs {
		for base := -1; base <= 37; base++ {
			for _, bitSize := range []int{-1, 0, 1, 8, 16, 31, 32, 33, 63, 64, 65} {
				atomic.AddInt64(&cases, 1)
				want, werr := strconv.ParseUint(s, base, bitSize)
				got, gerr := ParseUint(s, base, bitSize)
				gotB, gerrB := ParseUint([]byte(s), base, bitSize)
				if got != want || (gerr == nil) != (werr == nil) {
					fail("ParseUint(%q, %d, %d) = %d, %v; strconv: %d, %v", s, base, bitSize, got, gerr, want, werr)
				}
				if gotB != got || (gerrB == nil) != (gerr == nil) {
					fail("ParseUint([]byte(%q), %d, %d) differs from the string form", s, base, bitSize)
				}
			}
		}
	}
	// ---- hex ----
	halpha := []byte{'0', '9', 'a', 'f', 'A', 'F', 'g', 'G', '/', ':', '@', '`', 0, 0xff}
	var hin [][]byte
	var hrec func(cur []byte)
	hrec = func(cur []byte) {
		hin = append(hin, append([]byte(nil), cur...))
		if len(cur) == 4 {
			return
		}
		for _, c := range halpha {
			hrec(append(cur, c))
		}
	}
	hrec(nil)
	for a := 0; a < 256; a++ {
		for b := 0; b < 256; b++ {
			hin = append(hin, []byte{byte(a), byte(b)})
		}
	}
	for _, src := range hin {
		atomic.AddInt64(&cases, 1)
		orig := append([]byte(nil), src...)
		want := make([]byte, hex.DecodedLen(len(src)))
		wn, werr := hex.Decode(want, src)
		got, gerr := HexDecode(src)
		gotS, gerrS := HexDecode(string(src))
		if !bytes.Equal(got, want[:wn]) || fmt.Sprint(gerr) != fmt.Sprint(werr) {
			fail("HexDecode(%q) = %x, %v; encoding/hex: %x, %v", src, got, gerr, want[:wn], werr)
		}
		if !bytes.Equal(gotS, got) || fmt.Sprint(gerrS) != fmt.Sprint(gerr) {
			fail("HexDecode(string %q) differs from the []byte form", src)
		}
		if !bytes.Equal(src, orig) {
			fail("HexDecode modified its input %q", orig)
		}
		if e := HexEncode(src); string(e) != hex.EncodeToString(src) || HexEncodeToString(string(src)) != string(e) {
			fail("HexEncode(%q) = %q", src, e)
		}
		inpl := append([]byte(nil), src...)
		n, ierr := HexDecodeInPlace(inpl)
		if n != wn || fmt.Sprint(ierr) != fmt.Sprint(werr) || !bytes.Equal(inpl[:n], want[:wn]) {
			fail("HexDecodeInPlace(%q) = %d, %v", src, n, ierr)
		}
		for _, enc := range []*base64.Encoding{base64.StdEncoding, base64.RawURLEncoding} {
			if string(Base64Encode(src, enc)) != enc.EncodeToString(src) || Base64EncodeToString(string(src), enc) != enc.EncodeToString(src) {
				fail("Base64Encode(%q) differs", src)
			}
			wd, wderr := enc.DecodeString(string(src))
			gd, gderr := Base64Decode(src, enc)
			if !bytes.Equal(gd, wd) || (gderr == nil) != (wderr == nil) {
				fail("Base64Decode(%q) = %q, %v; encoding/base64: %q, %v", src, gd, gderr, wd, wderr)
			}
		}
		if !bytes.Equal(src, orig) {
			fail("a base64/hex helper modified its input %q", orig)
		}
	}
	// ---- IPv4 ----
	step := uint64(65521) // prime stride in the quick tier, plus all boundary values
	if thorough {
		step = 1
	}
	var wg sync.WaitGroup
	for w := 0; w < 16; w++ {
		wg.Add(1)
		go func(w int) {
			defer wg.Done()
			for x := uint64(w) * step; x < 1<<32; x += 16 * step {
				if got := IPv4ToLong(LongToIPv4(uint32(x))); got != uint32(x) {
					fail("IPv4ToLong(LongToIPv4(%d)) = %d", x, got)
					return
				}
				atomic.AddInt64(&cases, 1)
			}
		}(w)
	}
	wg.Wait()
	for _, x := range []uint32{0, 1, 255, 256, 65535, 65536, 1<<24 - 1, 1 << 24, 1<<31 - 1, 1 << 31, 1<<32 - 1} {
		if IPv4ToLong(LongToIPv4(x)) != x {
			fail("IPv4ToLong(LongToIPv4(%d)) wrong", x)
		}
	}
	fmt.Printf("GOVC-BOUNDED name=C15_strz cases=%d failures=%d bound=\"%d generated numerals x bases -1..37 x 11 bit sizes; hex/base64 inputs over 14 bytes len<=4 + all byte pairs; IPv4 stride %d\"\n", cases, fails, len(inputs), step)
	if fails > 0 {
		t.Fail()
	}
}
