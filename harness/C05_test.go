package algz

// Bounded stand-ins for C05 (queries exact) and C06 (Replace / ReplaceWithMask): the trie against a brute-force
// substring oracle, exhaustively over small pattern sets and texts built from 1-4 byte runes, U+FFFD and invalid bytes.

import (
	"fmt"
	"os"
	"sort"
	"strings"
	"testing"
	"unicode/utf8"
)

var c05valid = []string{"a", "b", "é", "日", "😀", "�"}
var c05invalid = []string{"\x80", "\xff", "\xe6\x97"} // stray continuation byte, invalid byte, truncated 3-byte rune

func c05strings(pieces []string, maxPieces int, min int) []string {
	var out []string
	var gen func(cur string, n int)
	gen = func(cur string, n int) {
		if n >= min {
			out = append(out, cur)
		}
		if n == maxPieces {
			return
		}
		for _, p := range pieces {
			gen(cur+p, n+1)
		}
	}
	gen("", 0)
	return out
}

type c05occ struct{ start, stop int }

// every (pattern, position) occurrence, patterns de-duplicated
func c05occurrences(pats []string, text string) []c05occ {
	seen := map[string]bool{}
	var out []c05occ
	for _, p := range pats {
		if p == "" || seen[p] {
			continue
		}
		seen[p] = true
		for i := 0; i+len(p) <= len(text); i++ {
			if text[i:i+len(p)] == p {
				out = append(out, c05occ{i, i + len(p)})
			}
		}
	}
	return out
}

func c05build(pats []string) *Trie {
	var t Trie
	for _, p := range pats {
		t.Insert(p)
	}
	t.BuildFailureLinks()
	return &t
}

func c05sortedCopy(a []string) []string {
	b := append([]string(nil), a...)
	sort.Strings(b)
	return b
}

func c05sameStrings(a, b []string) bool {
	a, b = c05sortedCopy(a), c05sortedCopy(b)
	if len(a) != len(b) {
		return false
	}
	for i := range a {
		if a[i] != b[i] {
			return false
		}
	}
	return true
}

type c05env struct {
	cases, fails int
}

func (e *c05env) fail(f string, a ...interface{}) {
	e.fails++
	if e.fails <= 5 {
		fmt.Printf("GOVC-FAIL %s\n", fmt.Sprintf(f, a...))
	}
}

// pattern sets: all sets of up to `k` patterns over the given strings (as index combinations)
func c05sets(pats []string, k int, f func(set []string)) {
	var rec func(from int, cur []string)
	rec = func(from int, cur []string) {
		if len(cur) > 0 {
			f(cur)
		}
		if len(cur) == k {
			return
		}
		for i := from; i < len(pats); i++ {
			rec(i+1, append(cur, pats[i]))
		}
	}
	rec(0, nil)
}

func TestGovcBounded_C05(t *testing.T) {
	e := &c05env{}
	thorough := os.Getenv("VERIF_TIER") == "thorough"
	textLen := 4
	if thorough {
		textLen = 5
	}
	validPats := c05strings(c05valid[:5], 2, 1) // 1-2 runes of every width
	validPats = append(validPats, "aba", "日é日", "�", "a�")
	textPieces := append(append([]string{}, c05valid[:4]...), "�", "\x80", "\xff")
	texts := c05strings(textPieces, textLen, 0)
	check := func(set []string, validSet bool) {
		tr := c05build(set)
		inserted := map[string]bool{}
		for _, p := range set {
			inserted[p] = true
		}
		for _, text := range texts {
			e.cases++
			func() {
				defer func() {
					if r := recover(); r != nil {
						e.fail("patterns %q text %q: panic %v", set, text, r)
					}
				}()
				occ := c05occurrences(set, text)
				got := tr.FindAll(text)
				m := tr.Match(text)
				// soundness (any patterns, any text): every reported match is an inserted pattern occurring in the text
				for _, g := range got {
					if !inserted[g] || !strings.Contains(text, g) {
						e.fail("patterns %q text %q: FindAll reports %q", set, text, g)
						return
					}
				}
				if m && len(occ) == 0 {
					e.fail("patterns %q text %q: Match true without an occurrence", set, text)
					return
				}
				if !validSet {
					return
				}
				// completeness (patterns are valid UTF-8): one entry per (pattern, position)
				var want []string
				for _, o := range occ {
					want = append(want, text[o.start:o.stop])
				}
				if !c05sameStrings(got, want) {
					e.fail("patterns %q text %q: FindAll %q want %q", set, text, got, want)
					return
				}
				if m != (len(occ) > 0) {
					e.fail("patterns %q text %q: Match %v", set, text, m)
				}
			}()
		}
	}
	// pairs of valid patterns (exhaustive), plus triples from a smaller pool
	c05sets(validPats, 2, func(set []string) { check(append([]string(nil), set...), true) })
	pool := []string{"a", "ab", "ba", "aba", "b", "é", "éa", "日", "a日"}
	c05sets(pool, 3, func(set []string) {
		if len(set) == 3 {
			check(append([]string(nil), set...), true)
		}
	})
	// duplicates
	check([]string{"ab", "ab", "b"}, true)
	// patterns with invalid bytes: soundness and no panic
	invPats := []string{"\x80", "\xff", "a\x80", "\x80a", "\xe6\x97", "�", "\xe6\x97\xa5"[:2] + "a", "\xff\xff"}
	c05sets(invPats, 2, func(set []string) { check(append([]string(nil), set...), false) })

	// PrefixSearch / FuzzySearch
	keyPieces := append(append([]string{}, c05valid[:4]...), "\x80")
	keys := c05strings(keyPieces, 3, 0)
	searchSets := [][]string{
		{"日本", "日月"}, {"a", "ab", "abc", "abd", "b"}, {"é", "éa", "éé", "日é"}, {"ab", "abé", "ab日", "ab日a", "ab日b", "b"},
		{"a", "aa", "aaa"}, {"😀a", "😀b", "😀😀"}, {"a\x80", "a\x80b", "a\xffc", "ab"}, {"�", "�a", "a�"},
	}
	for _, set := range searchSets {
		tr := c05build(set)
		inserted := map[string]bool{}
		for _, p := range set {
			inserted[p] = true
		}
		for _, k := range keys {
			e.cases++
			func() {
				defer func() {
					if r := recover(); r != nil {
						e.fail("patterns %q key %q: panic %v", set, k, r)
					}
				}()
				var want []string
				for p := range inserted {
					if strings.HasPrefix(p, k) {
						want = append(want, p)
					}
				}
				got := tr.PrefixSearch(k)
				if !c05sameStrings(got, want) {
					e.fail("patterns %q: PrefixSearch(%q) = %q want %q", set, k, got, want)
					return
				}
				for _, f := range tr.FuzzySearch(k) {
					if !inserted[f] {
						e.fail("patterns %q: FuzzySearch(%q) returns %q", set, k, f)
						return
					}
				}
			}()
		}
	}
	fmt.Printf("GOVC-BOUNDED name=C05 cases=%d failures=%d bound=\"all sets of 1-2 patterns over %d valid strings (1-2 runes of width 1-4, U+FFFD) and all triples over a 9-string pool, duplicates, against all texts of up to %d pieces over {a,b,é,日,U+FFFD,0x80,0xff}; sets of invalid-byte patterns (soundness, no panic); PrefixSearch/FuzzySearch for all keys of up to 3 pieces over 8 pattern sets\"\n", e.cases, e.fails, len(validPats), textLen)
	if e.fails > 0 {
		t.Fail()
	}
}

func TestGovcBounded_C06(t *testing.T) {
	e := &c05env{}
	thorough := os.Getenv("VERIF_TIER") == "thorough"
	textLen := 5
	if thorough {
		textLen = 6
	}
	pats := c05strings([]string{"a", "b", "é"}, 3, 1)
	texts := c05strings([]string{"a", "b", "é", "日", "\x80"}, textLen, 0)
	longTexts := []string{"abcdefgh", "xabcdefghx", "ababababa", "aébaébaé", "abcabcabc"}
	check := func(set []string, texts []string) {
		tr := c05build(set)
		for _, text := range texts {
			e.cases++
			func() {
				defer func() {
					if r := recover(); r != nil {
						e.fail("patterns %q text %q: panic %v", set, text, r)
					}
				}()
				// the shape that the contracts of Replace/ReplaceWithMask assume of find (trusted contract Trie.find)
				var sc []scope
				tr.find(text, &sc)
				for k, s := range sc {
					if !(0 <= s.start && s.start < s.stop && s.stop <= len(text)) || (k > 0 && sc[k-1].stop > s.stop) {
						e.fail("patterns %q text %q: find output %v violates the assumed shape", set, text, sc)
						return
					}
				}
				occ := c05occurrences(set, text)
				covered := make([]int, len(text)) // number of occurrences covering the byte
				for _, o := range occ {
					for i := o.start; i < o.stop; i++ {
						covered[i]++
					}
				}
				// ReplaceWithMask: rune by rune
				var want strings.Builder
				for i := 0; i < len(text); {
					_, size := utf8.DecodeRuneInString(text[i:])
					if covered[i] > 0 {
						want.WriteRune('*')
					} else {
						want.WriteString(text[i : i+size])
					}
					i += size
				}
				if got := tr.ReplaceWithMask(text, '*'); got != want.String() {
					e.fail("patterns %q: ReplaceWithMask(%q) = %q want %q", set, text, got, want.String())
					return
				}
				// Replace: uncovered bytes in order; per maximal covered region between 1 and #occurrences copies of "#"
				got := tr.Replace(text, "#")
				pos := 0
				for i := 0; i < len(text); {
					if covered[i] == 0 {
						if pos >= len(got) || got[pos] != text[i] {
							e.fail("patterns %q: Replace(%q) = %q: uncovered byte %d lost", set, text, got, i)
							return
						}
						pos++
						i++
						continue
					}
					j := i
					for j < len(text) && covered[j] > 0 {
						j++
					}
					n := 0
					for _, o := range occ {
						if o.start >= i && o.stop <= j {
							n++
						}
					}
					k := 0
					for pos < len(got) && got[pos] == '#' {
						pos++
						k++
					}
					if k < 1 || k > n {
						e.fail("patterns %q: Replace(%q) = %q: %d replacements for the region [%d,%d) with %d occurrences", set, text, got, k, i, j, n)
						return
					}
					i = j
				}
				if pos != len(got) {
					e.fail("patterns %q: Replace(%q) = %q: trailing output", set, text, got)
				}
			}()
		}
	}
	c05sets(pats, 2, func(set []string) { check(append([]string(nil), set...), texts) })
	pool := []string{"a", "ab", "ba", "aba", "b", "bab", "é", "aé"}
	c05sets(pool, 3, func(set []string) {
		if len(set) == 3 {
			check(append([]string(nil), set...), texts)
		}
	})
	// a literal U+FFFD in patterns and texts is one rune of three bytes (not three stray bytes), next to real stray bytes
	fffdTexts := c05strings([]string{"a", "�", "\xbd", "é"}, 4, 0)
	for _, set := range [][]string{{"�"}, {"a�"}, {"�a", "é"}, {"��", "a"}, {"�é", "é�"}} {
		check(set, fffdTexts)
	}
	// patterns that are not valid UTF-8 (whatever occurrence notion one takes for them): ReplaceWithMask keeps the rune
	// count, every rune of the result is the mask or the rune of the text at that place, and a rune that contains no
	// byte of any byte-wise occurrence is unchanged; Replace keeps every byte outside all byte-wise occurrences
	for _, set := range [][]string{{"\xbd"}, {"\xbf", "a"}, {"\xef"}, {"\xbd", "\x80"}, {"a\xbd"}, {"\xe6\x97"}, {"\xa5", "日"}} {
		tr := c05build(set)
		for _, text := range c05strings([]string{"a", "�", "\xbd", "日", "\xe6\x97"}, 4, 0) {
			e.cases++
			func() {
				defer func() {
					if r := recover(); r != nil {
						e.fail("patterns %q text %q: panic %v", set, text, r)
					}
				}()
				covered := make([]bool, len(text))
				for _, o := range c05occurrences(set, text) {
					for i := o.start; i < o.stop; i++ {
						covered[i] = true
					}
				}
				got := tr.ReplaceWithMask(text, '*')
				gi := 0
				for i := 0; i < len(text); {
					_, size := utf8.DecodeRuneInString(text[i:])
					touched := false
					for j := i; j < i+size; j++ {
						touched = touched || covered[j]
					}
					switch {
					case strings.HasPrefix(got[gi:], text[i:i+size]):
						gi += size
					case touched && strings.HasPrefix(got[gi:], "*"):
						gi++
					default:
						e.fail("patterns %q: ReplaceWithMask(%q) = %q: the rune at byte %d is neither kept nor masked (or is masked outside every occurrence)", set, text, got, i)
						return
					}
					i += size
				}
				if gi != len(got) {
					e.fail("patterns %q: ReplaceWithMask(%q) = %q: rune count changed", set, text, got)
					return
				}
				rep := tr.Replace(text, "#")
				pos := 0
				for i := 0; i < len(text); i++ {
					if covered[i] {
						continue
					}
					// (bytes of byte-wise occurrences may be kept or removed; the others must come through in order)
					for pos < len(rep) && rep[pos] != text[i] {
						pos++
					}
					if pos >= len(rep) {
						e.fail("patterns %q: Replace(%q) = %q: byte %d lies in no occurrence and is lost", set, text, rep, i)
						return
					}
					pos++
				}
			}()
		}
	}
	// a long occurrence ending late that starts before several earlier, mutually disjoint occurrences
	for _, set := range [][]string{{"ab", "de", "bcdefgh"}, {"ab", "cd", "ef", "bcdefg"}, {"a", "c", "e", "g", "abcdefgh"}, {"ab", "abcabc", "ca", "bc"}, {"aé", "ébaé", "ba"}} {
		check(set, longTexts)
	}
	fmt.Printf("GOVC-BOUNDED name=C06 cases=%d failures=%d bound=\"all sets of 1-2 patterns over the %d strings of 1-3 pieces from {a,b,é} and all triples over an 8-string pool against all texts of up to %d pieces over {a,b,é,日,0x80}; five sets with a literal U+FFFD against all texts of up to 4 pieces over {a,U+FFFD,0xbd,é}; seven sets of invalid-byte patterns against all texts of up to 4 pieces over {a,U+FFFD,0xbd,日,truncated 日} (rune count kept, runes kept or masked, untouched runes and bytes kept); five hand-picked sets with a long late-ending occurrence over five longer texts\"\n", e.cases, e.fails, len(pats), textLen)
	if e.fails > 0 {
		t.Fail()
	}
}
