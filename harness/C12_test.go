package mapz

// SAMPLED stand-in for the whole-history clauses of C12 (this one is not exhaustive: it runs real goroutines under the
// Go race detector for a fixed number of rounds). The deductive part (lock discipline + sequential effect of every
// method inside one critical section) is what decides the property for all schedules; this harness exercises the
// consequences on real executions: no race report, one SetNx winner, SetX never creates, consistent snapshots.

import (
	"fmt"
	"os"
	"sync"
	"sync/atomic"
	"testing"
)

func TestGovcBounded_C12(t *testing.T) {
	cases, fails := 0, 0
	var mu sync.Mutex
	fail := func(f string, a ...interface{}) {
		mu.Lock()
		defer mu.Unlock()
		fails++
		if fails <= 5 {
			fmt.Printf("GOVC-FAIL %s\n", fmt.Sprintf(f, a...))
		}
	}
	rounds := 300
	if os.Getenv("VERIF_TIER") == "thorough" {
		rounds = 3000
	}
	const G = 6
	kv := NewSafeKV[int, int](0)

	// 1. exactly one of several concurrent SetNx calls on an absent key wins; SetX never creates a key
	for r := 0; r < rounds; r++ {
		cases++
		var wins int32
		var wg sync.WaitGroup
		for g := 0; g < G; g++ {
			wg.Add(1)
			go func(g int) {
				defer wg.Done()
				if kv.SetNx(r, g) {
					atomic.AddInt32(&wins, 1)
				}
				if kv.SetX(-1-r, g) {
					fail("SetX created or found the absent key %d", -1-r)
				}
				kv.Delete(-1 - r)
			}(g)
		}
		wg.Wait()
		if wins != 1 {
			fail("round %d: %d concurrent SetNx calls returned true", r, wins)
		}
		if kv.Has(-1-r) || !kv.Has(r) {
			fail("round %d: wrong final membership", r)
		}
	}
	if kv.Len() != rounds {
		fail("Len %d after %d successful SetNx", kv.Len(), rounds)
	}
	kv.Clear()

	// 2. snapshots: a writer adds and removes the PAIR (2k, 2k+1) atomically through Map / Clear; every observer must
	//    see both keys of a pair or neither, and an even number of keys
	var stop int32
	var wg sync.WaitGroup
	wg.Add(1)
	go func() {
		defer wg.Done()
		for i := 0; atomic.LoadInt32(&stop) == 0; i++ {
			k := (i % 8) * 2
			kv.Map(func(m KV[int, int]) {
				if _, ok := m[k]; ok {
					delete(m, k)
					delete(m, k+1)
				} else {
					m[k], m[k+1] = i, i
				}
			})
			if i%50 == 49 {
				kv.Clear()
			}
		}
	}()
	checkPairs := func(what string, seen map[int]int) {
		if len(seen)%2 != 0 {
			fail("%s saw an odd number of keys (%d)", what, len(seen))
			return
		}
		for k, v := range seen {
			if w, ok := seen[k^1]; !ok || w != v {
				fail("%s saw key %d without its partner", what, k)
				return
			}
		}
	}
	var readers sync.WaitGroup
	for g := 0; g < G; g++ {
		readers.Add(1)
		go func(g int) {
			defer readers.Done()
			for r := 0; r < rounds; r++ {
				switch (r + g) % 5 {
				case 0:
					ks := kv.Keys()
					seen := map[int]int{}
					for _, k := range ks {
						seen[k] = 0
					}
					if len(ks)%2 != 0 {
						fail("Keys returned an odd number of keys")
					}
					for k := range seen {
						if _, ok := seen[k^1]; !ok {
							fail("Keys returned %d without its partner", k)
							break
						}
					}
				case 1:
					seen := map[int]int{}
					kv.Range(func(k, v int) bool { seen[k] = v; return true })
					checkPairs("Range", seen)
				case 2:
					seen := map[int]int{}
					kv.All()(func(k, v int) bool { seen[k] = v; return true })
					checkPairs("All", seen)
				case 3:
					m := map[int]int{}
					for k := 0; k < 16; k++ {
						m[k] = -7
					}
					kv.GetWithMap(m)
					for k := 0; k < 16; k += 2 {
						if (m[k] == -7) != (m[k+1] == -7) || m[k] != m[k+1] {
							fail("GetWithMap saw half of the pair %d", k)
							break
						}
					}
				case 4:
					if len(kv.Values())%2 != 0 {
						fail("Values returned an odd number of values")
					}
					kv.Get(r % 16)
					kv.Contains(r % 16)
					kv.GetWithLock(r%16, func(int) {})
					if kv.Len()%2 != 0 {
						fail("Len was odd")
					}
				}
			}
		}(g)
	}
	// the readers finish on their own; then the writer is told to stop
	readers.Wait()
	atomic.StoreInt32(&stop, 1)
	wg.Wait()
	cases += G * rounds
	fmt.Printf("GOVC-BOUNDED name=C12 cases=%d failures=%d bound=\"SAMPLED, not exhaustive: %d rounds of %d goroutines under the Go race detector: concurrent SetNx on a fresh key (one winner), SetX on absent keys, Delete; a writer toggling key pairs atomically through Map/Clear against %d concurrent observers (Keys, Values, Range, All, GetWithMap, Len) that must see whole pairs\"\n", cases, fails, rounds, G, G)
	if fails > 0 {
		t.Fail()
	}
}
