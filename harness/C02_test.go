package listz

// Bounded stand-in for C02: SkipList and SkipListWithCmp against a sorted map, over all short histories and ALL tower
// heights the random source can produce at each insert (the private random source is replaced by a scripted one:
// this test lives in the package, so no reflection is needed).

import (
	"fmt"
	"math/rand"
	"os"
	"sort"
	"testing"
)

// c02src is a scripted rand.Source64: Uint64 returns the value that makes randomLevel return the wanted height.
type c02src struct{ next uint64 }

func (s *c02src) Int63() int64    { return int64(s.next >> 1) }
func (s *c02src) Seed(int64)      {}
func (s *c02src) Uint64() uint64  { return s.next }
func (s *c02src) want(height int) { s.next = uint64(1) << uint(32-height) } // Len64 = 33-height -> level = height

type c02list struct {
	set, setNx, setX func(k, v int) bool
	get              func(k int) (int, bool)
	getNode          func(k int) (int, int, bool)
	remove           func(k int) (int, bool)
	clear            func()
	length           func() int
	head             func() (int, bool)
	rng              func(f func(k, v int) bool)
	rngStart         func(s int, f func(k, v int) bool)
	rngRange         func(s, e int, f func(k, v int) bool)
	keys, values     func() []int
	all              func(f func(k, v int) bool)
	chain            func() []int // level-0 chain via node.Next()
	structure        func() string // white-box check of the tower structure ("" = fine)
}

// c02towers checks the tower structure given, per level, the chain of (node id, key, height) triples reachable from the head
func c02towers(level int, headLen int, chains [][][3]int, less func(a, b int) bool) string {
	if headLen == 0 {
		if level != 0 {
			return "unallocated head tower with level != 0"
		}
		return ""
	}
	if headLen != 32 || level < 1 || level > 32 {
		return fmt.Sprintf("head tower of %d slots, level %d", headLen, level)
	}
	for i := level; i < 32; i++ {
		if len(chains[i]) != 0 {
			return fmt.Sprintf("level %d is above the list level %d but not empty", i, level)
		}
	}
	for i := 0; i < level; i++ {
		var want [][3]int
		for _, n := range chains[0] {
			if n[2] > i {
				want = append(want, n)
			}
		}
		if len(want) != len(chains[i]) {
			return fmt.Sprintf("level %d holds %d nodes, but %d nodes of level 0 are that high", i, len(chains[i]), len(want))
		}
		for j, n := range chains[i] {
			if n != want[j] {
				return fmt.Sprintf("level %d is not the sub-list of the nodes higher than %d", i, i)
			}
			if j > 0 && !less(chains[i][j-1][1], n[1]) {
				return fmt.Sprintf("level %d is not strictly ascending", i)
			}
		}
	}
	return ""
}

func c02plain(src *c02src, zero bool) *c02list {
	var s *SkipList[int, int]
	if zero {
		s = new(SkipList[int, int])
	} else {
		s = NewSkipList[int, int]()
	}
	fix := func() {
		if s.rand != nil {
			s.rand = rand.New(src)
		}
	}
	fix()
	return &c02list{
		set:   func(k, v int) bool { s.lazyInit(); fix(); s.Set(k, v); return true },
		setNx: func(k, v int) bool { s.lazyInit(); fix(); return s.SetNx(k, v) },
		setX:  func(k, v int) bool { s.lazyInit(); fix(); return s.SetX(k, v) },
		get:   func(k int) (int, bool) { return s.Get(k) },
		getNode: func(k int) (int, int, bool) {
			n := s.GetNode(k)
			if n == nil {
				return 0, 0, false
			}
			return n.Key(), n.Value(), true
		},
		remove: func(k int) (int, bool) { return s.Remove(k) },
		clear:  func() { s.Clear(); fix() },
		length: func() int { return s.Len() },
		head: func() (int, bool) {
			h := s.Head()
			if h == nil {
				return 0, false
			}
			return h.Key(), true
		},
		rng:      func(f func(k, v int) bool) { s.Range(f) },
		rngStart: func(st int, f func(k, v int) bool) { s.RangeWithStart(st, f) },
		rngRange: func(st, e int, f func(k, v int) bool) { s.RangeWithRange(st, e, f) },
		keys:     func() []int { return s.Keys() },
		values:   func() []int { return s.Values() },
		all:      func(f func(k, v int) bool) { s.All()(f) },
		chain: func() []int {
			var out []int
			for n := s.Head(); n != nil; n = n.Next() {
				out = append(out, n.Key())
				if len(out) > 100 {
					break
				}
			}
			return out
		},
		structure: func() string {
			ids := map[*SkipNode[int, int]]int{}
			chains := make([][][3]int, 32)
			for i := 0; i < len(s.head.next) && i < 32; i++ {
				for n := s.head.next[i]; n != nil; n = n.next[i] {
					if _, ok := ids[n]; !ok {
						ids[n] = len(ids) + 1
					}
					if len(n.next) <= i {
						return fmt.Sprintf("a node of height %d is linked at level %d", len(n.next), i)
					}
					chains[i] = append(chains[i], [3]int{ids[n], n.key, len(n.next)})
					if len(chains[i]) > 100 {
						return "cycle"
					}
				}
			}
			return c02towers(s.level, len(s.head.next), chains, func(a, b int) bool { return a < b })
		},
	}
}

// keys are compared in DESCENDING int order by the comparator; the harness negates keys so that the model stays ascending
func c02cmp(src *c02src) *c02list {
	s := NewSkipListWithCmp[int, int](func(a, b int) int {
		switch {
		case a > b:
			return -1
		case a < b:
			return 1
		}
		return 0
	})
	s.rand = rand.New(src)
	neg := func(f func(k, v int) bool) func(k, v int) bool { return func(k, v int) bool { return f(-k, v) } }
	return &c02list{
		set:   func(k, v int) bool { s.Set(-k, v); return true },
		setNx: func(k, v int) bool { return s.SetNx(-k, v) },
		setX:  func(k, v int) bool { return s.SetX(-k, v) },
		get:   func(k int) (int, bool) { return s.Get(-k) },
		getNode: func(k int) (int, int, bool) {
			n := s.GetNode(-k)
			if n == nil {
				return 0, 0, false
			}
			return -n.Key(), n.Value(), true
		},
		remove: func(k int) (int, bool) { return s.Remove(-k) },
		clear:  func() { s.Clear() },
		length: func() int { return s.Len() },
		head: func() (int, bool) {
			h := s.Head()
			if h == nil {
				return 0, false
			}
			return -h.Key(), true
		},
		rng:      func(f func(k, v int) bool) { s.Range(neg(f)) },
		rngStart: func(st int, f func(k, v int) bool) { s.RangeWithStart(-st, neg(f)) },
		rngRange: func(st, e int, f func(k, v int) bool) { s.RangeWithRange(-st, -e, neg(f)) },
		keys: func() []int {
			ks := s.Keys()
			out := make([]int, len(ks))
			for i, k := range ks {
				out[i] = -k
			}
			if ks == nil {
				return nil
			}
			return out
		},
		values: func() []int { return s.Values() },
		all:    func(f func(k, v int) bool) { s.All()(neg(f)) },
		chain: func() []int {
			var out []int
			for n := s.Head(); n != nil; n = n.Next() {
				out = append(out, -n.Key())
				if len(out) > 100 {
					break
				}
			}
			return out
		},
		structure: func() string {
			ids := map[*SkipNodeCmp[int, int]]int{}
			chains := make([][][3]int, 32)
			for i := 0; i < len(s.head.next) && i < 32; i++ {
				for n := s.head.next[i]; n != nil; n = n.next[i] {
					if _, ok := ids[n]; !ok {
						ids[n] = len(ids) + 1
					}
					if len(n.next) <= i {
						return fmt.Sprintf("a node of height %d is linked at level %d", len(n.next), i)
					}
					chains[i] = append(chains[i], [3]int{ids[n], n.key, len(n.next)})
					if len(chains[i]) > 100 {
						return "cycle"
					}
				}
			}
			return c02towers(s.level, len(s.head.next), chains, func(a, b int) bool { return a > b })
		},
	}
}

func TestGovcBounded_C02(t *testing.T) {
	cases, fails := 0, 0
	fail := func(f string, a ...interface{}) {
		fails++
		if fails <= 5 {
			fmt.Printf("GOVC-FAIL %s\n", fmt.Sprintf(f, a...))
		}
	}
	thorough := os.Getenv("VERIF_TIER") == "thorough"
	depth := 4
	if thorough {
		depth = 5
	}
	keys := []int{1, 2, 3}
	heights := []int{1, 2, 4}
	if thorough {
		heights = []int{1, 2, 3}
	}
	type op struct{ kind, k, h int }
	var ops []op
	for _, k := range keys {
		for _, h := range heights {
			ops = append(ops, op{0, k, h}, op{1, k, h}) // Set, SetNx (may insert a tower of height h)
		}
		ops = append(ops, op{2, k, 0}, op{3, k, 0}) // SetX, Remove
	}
	ops = append(ops, op{4, 0, 0}) // Clear
	eq := func(a, b []int) bool {
		if len(a) != len(b) {
			return false
		}
		for i := range a {
			if a[i] != b[i] {
				return false
			}
		}
		return true
	}
	collect := func(run func(f func(k, v int) bool), stopAfter int) (ks, vs []int) {
		n := 0
		run(func(k, v int) bool {
			ks = append(ks, k)
			vs = append(vs, v)
			n++
			return n != stopAfter
		})
		return
	}
	observe := func(what func() string, l *c02list, model map[int]int) bool {
		var mk []int
		for k := range model {
			mk = append(mk, k)
		}
		sort.Ints(mk)
		mv := make([]int, len(mk))
		for i, k := range mk {
			mv[i] = model[k]
		}
		if l.length() != len(mk) {
			fail("%s: Len %d want %d", what(), l.length(), len(mk))
			return false
		}
		if msg := l.structure(); msg != "" {
			fail("%s: tower structure: %s", what(), msg)
			return false
		}
		if hk, ok := l.head(); ok != (len(mk) > 0) || (ok && hk != mk[0]) {
			fail("%s: Head wrong", what())
			return false
		}
		if c := l.chain(); !eq(c, mk) {
			fail("%s: level-0 chain %v want %v", what(), c, mk)
			return false
		}
		for k := 0; k <= 4; k++ {
			v, ok := l.get(k)
			mvv, mok := model[k]
			if ok != mok || (ok && v != mvv) {
				fail("%s: Get(%d) = %d,%v want %d,%v", what(), k, v, ok, mvv, mok)
				return false
			}
			nk, nv, nok := l.getNode(k)
			if nok != mok || (nok && (nk != k || nv != mvv)) {
				fail("%s: GetNode(%d) wrong", what(), k)
				return false
			}
		}
		if ks := l.keys(); !eq(ks, mk) || (len(mk) == 0 && ks != nil) {
			fail("%s: Keys %v want %v", what(), ks, mk)
			return false
		}
		if vs := l.values(); !eq(vs, mv) {
			fail("%s: Values %v want %v", what(), vs, mv)
			return false
		}
		for stop := 0; stop <= len(mk)+1; stop++ {
			wantN := len(mk)
			if stop >= 1 && stop < wantN {
				wantN = stop
			}
			ks, vs := collect(l.rng, stop)
			if !eq(ks, mk[:wantN]) || !eq(vs, mv[:wantN]) {
				fail("%s: Range(stop after %d) %v want %v", what(), stop, ks, mk[:wantN])
				return false
			}
			ks, vs = collect(l.all, stop)
			if !eq(ks, mk[:wantN]) || !eq(vs, mv[:wantN]) {
				fail("%s: All(stop after %d) %v want %v", what(), stop, ks, mk[:wantN])
				return false
			}
		}
		for s := 0; s <= 4; s++ {
			var want []int
			for _, k := range mk {
				if k >= s {
					want = append(want, k)
				}
			}
			for stop := 0; stop <= len(want)+1; stop++ {
				wantN := len(want)
				if stop >= 1 && stop < wantN {
					wantN = stop
				}
				ks, _ := collect(func(f func(k, v int) bool) { l.rngStart(s, f) }, stop)
				if !eq(ks, want[:wantN]) {
					fail("%s: RangeWithStart(%d, stop after %d) %v want %v", what(), s, stop, ks, want[:wantN])
					return false
				}
			}
			for e := 0; e <= 5; e++ {
				var wr []int
				for _, k := range mk {
					if k >= s && k < e {
						wr = append(wr, k)
					}
				}
				ks, vs := collect(func(f func(k, v int) bool) { l.rngRange(s, e, f) }, 0)
				if !eq(ks, wr) {
					fail("%s: RangeWithRange(%d,%d) %v want %v", what(), s, e, ks, wr)
					return false
				}
				for i, k := range ks {
					if vs[i] != model[k] {
						fail("%s: RangeWithRange(%d,%d) value of %d", what(), s, e, k)
						return false
					}
				}
			}
		}
		return true
	}
	hist := make([]int, depth)
	exec := func(variant int, n int) {
		cases++
		what := func() string {
			s := []string{"SkipList", "zero-value SkipList", "SkipListWithCmp"}[variant] + " history"
			for _, i := range hist[:n] {
				s += fmt.Sprintf(" %v", ops[i])
			}
			return s
		}
		defer func() {
			if r := recover(); r != nil {
				fail("%s panics: %v", what(), r)
			}
		}()
		src := &c02src{}
		src.want(1)
		var l *c02list
		switch variant {
		case 0:
			l = c02plain(src, false)
		case 1:
			l = c02plain(src, true)
		default:
			l = c02cmp(src)
		}
		model := map[int]int{}
		if n == 0 && !observe(what, l, model) {
			return
		}
		serial := 0
		for _, oi := range hist[:n] {
			o := ops[oi]
			serial++
			v := serial * 10
			_, present := model[o.k]
			switch o.kind {
			case 0:
				src.want(o.h)
				l.set(o.k, v)
				model[o.k] = v
			case 1:
				src.want(o.h)
				if r := l.setNx(o.k, v); r != !present {
					fail("%s: SetNx returned %v", what(), r)
					return
				}
				if !present {
					model[o.k] = v
				}
			case 2:
				if r := l.setX(o.k, v); r != present {
					fail("%s: SetX returned %v", what(), r)
					return
				}
				if present {
					model[o.k] = v
				}
			case 3:
				rv, ok := l.remove(o.k)
				if ok != present || (ok && rv != model[o.k]) {
					fail("%s: Remove returned %d,%v", what(), rv, ok)
					return
				}
				delete(model, o.k)
			case 4:
				l.clear()
				model = map[int]int{}
			}
			if l.length() != len(model) {
				fail("%s: Len %d want %d", what(), l.length(), len(model))
				return
			}
		}
		observe(what, l, model)
	}
	var run func(pos, n int)
	run = func(pos, n int) {
		if pos == n {
			exec(0, n)
			if n <= 4 { // the two other variants up to 4 operations
				exec(2, n)
				exec(1, n)
			}
			return
		}
		for i := range ops {
			hist[pos] = i
			run(pos+1, n)
		}
	}
	for n := 0; n <= depth; n++ {
		run(0, n)
	}
	fmt.Printf("GOVC-BOUNDED name=C02 cases=%d failures=%d bound=\"all histories of up to %d operations over %d operation instances (Set/SetNx with every tower height in %v chosen through a scripted random source, SetX, Remove on keys 1..3, Clear) for SkipList, and of up to 4 operations for a zero-value SkipList and SkipListWithCmp (descending comparator); tower structure (each level the sorted sub-list of the nodes that high, nothing above the list level) and every observer incl. early stop at every position, RangeWithStart 0..4, RangeWithRange 0..4 x 0..5\"\n", cases, fails, depth, len(ops), heights)
	if fails > 0 {
		t.Fail()
	}
}
