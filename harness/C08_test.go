package cryptz

// Bounded stand-in for the clauses of C08 that rest on the semantics of AES/CBC/GCM themselves
// (uninterpreted in the contracts): equality with the standard library, round trips, aliasing layouts,
// tamper detection, rejection of every malformed padding of one block. Injected with `go test -overlay`.

import (
	"bytes"
	"crypto/aes"
	"crypto/cipher"
	"fmt"
	"os"
	"testing"
)

func TestGovcBounded_C08(t *testing.T) {
	cases, fails := 0, 0
	fail := func(f string, a ...interface{}) {
		fails++
		if fails <= 5 {
			fmt.Printf("GOVC-FAIL %s\n", fmt.Sprintf(f, a...))
		}
	}
	guard := func(what string, f func()) {
		defer func() {
			if r := recover(); r != nil {
				fail("%s panics: %v", what, r)
			}
		}()
		f()
	}
	maxLen := 49
	if os.Getenv("VERIF_TIER") == "thorough" {
		maxLen = 100
	}
	mk := func(n int, seed byte) []byte {
		b := make([]byte, n)
		for i := range b {
			b[i] = byte(i*7) + seed
		}
		return b
	}
	iv := mk(16, 3)
	for _, kl := range []int{16, 24, 32} {
		key := mk(kl, 9)
		block, _ := aes.NewCipher(key)
		for n := 0; n < maxLen; n++ {
			plain := mk(n, 1)
			cases++
			guard(fmt.Sprintf("CBC len=%d key=%d", n, kl), func() {
				// reference: stdlib CBC over manual PKCS#7
				pad := 16 - n%16
				ref := append(append([]byte{}, plain...), bytes.Repeat([]byte{byte(pad)}, pad)...)
				cipher.NewCBCEncrypter(block, iv).CryptBlocks(ref, ref)
				if AESCBCEncryptLen(plain) != len(ref) {
					fail("AESCBCEncryptLen(%d) = %d, want %d", n, AESCBCEncryptLen(plain), len(ref))
					return
				}
				dst := make([]byte, AESCBCEncryptLen(plain))
				if err := AESCBCEncrypt(dst, plain, key, iv); err != nil || !bytes.Equal(dst, ref) {
					fail("AESCBCEncrypt len=%d key=%d differs from stdlib CBC+PKCS7 (err=%v)", n, kl, err)
				}
				// aliasing layout allowed by the doc comment: dst and plaintext share memory from the same start
				buf := make([]byte, len(ref))
				copy(buf, plain)
				if err := AESCBCEncrypt(buf, buf[:n], key, iv); err != nil || !bytes.Equal(buf, ref) {
					fail("AESCBCEncrypt in place len=%d key=%d differs (err=%v)", n, kl, err)
				}
				out := make([]byte, AESCBCDecryptLen(ref))
				m, err := AESCBCDecrypt(out, ref, key, iv)
				if err != nil || !bytes.Equal(out[:m], plain) {
					fail("AESCBCDecrypt(AESCBCEncrypt(len=%d)) = %q, %v", n, out[:m], err)
				}
				inpl := append([]byte{}, ref...)
				m, err = AESCBCDecrypt(inpl, inpl, key, iv)
				if err != nil || !bytes.Equal(inpl[:m], plain) {
					fail("AESCBCDecrypt in place len=%d wrong (err=%v)", n, err)
				}
				// truncated / misaligned ciphertext is rejected, never a panic
				for _, cut := range []int{0, 1, 15, len(ref) - 1} {
					if cut < len(ref) && (cut < 16 || cut%16 != 0) {
						o := make([]byte, cut)
						if _, err := AESCBCDecrypt(o, ref[:cut], key, iv); err == nil {
							fail("AESCBCDecrypt accepted %d-byte ciphertext", cut)
						}
					}
				}
			})
			guard(fmt.Sprintf("GCM len=%d key=%d", n, kl), func() {
				nonce := mk(12, 5)
				ad := mk(n%7, 2)
				g, _ := cipher.NewGCM(block)
				ref := g.Seal(nil, nonce, plain, ad)
				if AESGCMEncryptLen(plain) != len(ref) || AESGCMDecryptLen(ref) != n {
					fail("GCM length helpers wrong for len=%d", n)
					return
				}
				dst := make([]byte, AESGCMEncryptLen(plain))
				if err := AESGCMEncrypt(dst, plain, key, nonce, ad); err != nil || !bytes.Equal(dst, ref) {
					fail("AESGCMEncrypt len=%d differs from stdlib Seal (err=%v)", n, err)
				}
				out := make([]byte, AESGCMDecryptLen(ref))
				if err := AESGCMDecrypt(out, ref, key, nonce, ad); err != nil || !bytes.Equal(out, plain) {
					fail("AESGCMDecrypt(AESGCMEncrypt(len=%d)) wrong (err=%v)", n, err)
				}
				// any single-bit change to ciphertext/tag, nonce or additional data makes decryption fail
				for i := 0; i < len(ref); i += 1 + len(ref)/9 {
					bad := append([]byte{}, ref...)
					bad[i] ^= 1 << uint(i%8)
					if err := AESGCMDecrypt(make([]byte, n), bad, key, nonce, ad); err == nil {
						fail("AESGCMDecrypt accepted corrupted ciphertext byte %d (len=%d)", i, n)
					}
				}
				bn := append([]byte{}, nonce...)
				bn[n%12] ^= 0x10
				if err := AESGCMDecrypt(make([]byte, n), ref, key, bn, ad); err == nil {
					fail("AESGCMDecrypt accepted wrong nonce (len=%d)", n)
				}
				if err := AESGCMDecrypt(make([]byte, n), ref, key, nonce, append(append([]byte{}, ad...), 0)); err == nil {
					fail("AESGCMDecrypt accepted wrong additional data (len=%d)", n)
				}
			})
		}
		// every malformed padding of the final block is rejected by AESCBCDecrypt (crafted raw CBC ciphertexts)
		for last := 0; last < 256; last++ {
			for variant := 0; variant < 18; variant++ {
				cases++
				blockPlain := bytes.Repeat([]byte{0x41}, 32)
				// tail filled with `last`, then one position (variant-1 from the end) flipped; variant 0: clean
				valid := last >= 1 && last <= 16
				if valid {
					for i := 0; i < last; i++ {
						blockPlain[31-i] = byte(last)
					}
				} else {
					blockPlain[31] = byte(last)
				}
				if variant > 0 && variant <= 16 {
					pos := 32 - variant
					if valid && variant <= last && variant > 1 {
						blockPlain[pos] ^= 0x55
						valid = false
					} else if variant > last {
						blockPlain[pos] ^= 0x55 // outside the padding: validity unchanged
					}
				}
				ct := append([]byte{}, blockPlain...)
				cipher.NewCBCEncrypter(block, iv).CryptBlocks(ct, ct)
				guard(fmt.Sprintf("AESCBCDecrypt padding last=%d variant=%d", last, variant), func() {
					out := make([]byte, 32)
					m, err := AESCBCDecrypt(out, ct, key, iv)
					if valid && (err != nil || m != 32-last) {
						fail("valid padding %d rejected or wrong length %d (err=%v)", last, m, err)
					}
					if !valid && err == nil {
						fail("malformed padding accepted: block tail % x, returned n=%d", blockPlain[14:], m)
					}
				})
			}
		}
	}
	// invalid key sizes yield errors
	for kl := 0; kl < 40; kl++ {
		if kl == 16 || kl == 24 || kl == 32 {
			continue
		}
		cases++
		guard("bad key", func() {
			if err := AESCBCEncrypt(make([]byte, 16), nil, make([]byte, kl), iv); err == nil {
				fail("AESCBCEncrypt accepted %d-byte key", kl)
			}
			if err := AESGCMEncrypt(make([]byte, 16), nil, make([]byte, kl), make([]byte, 12), nil); err == nil {
				fail("AESGCMEncrypt accepted %d-byte key", kl)
			}
		})
	}
	// standalone PKCS#7: round trip for every block size 1..255 and lengths around multiples; malformed inputs rejected
	for bs := 1; bs <= 255; bs++ {
		for _, n := range []int{1, bs - 1, bs, bs + 1, 2*bs - 1, 2 * bs} {
			if n < 1 {
				continue
			}
			cases++
			d := mk(n, 7)
			guard("PKCS7", func() {
				p, err := PKCS7Padding(append([]byte{}, d...), bs)
				if err != nil || len(p)%bs != 0 || len(p) <= n {
					fail("PKCS7Padding(len=%d, bs=%d) wrong length %d err=%v", n, bs, len(p), err)
					return
				}
				u, err := PKCS7UnPadding(p, bs)
				if err != nil || !bytes.Equal(u, d) {
					fail("PKCS7UnPadding(PKCS7Padding(len=%d), %d) = len %d, %v", n, bs, len(u), err)
				}
				bad := append([]byte{}, p...)
				if len(p)-int(p[len(p)-1]) < len(p)-1 {
					bad[len(p)-int(p[len(p)-1])] ^= 1
					if _, err := PKCS7UnPadding(bad, bs); err == nil {
						fail("PKCS7UnPadding accepted corrupted first padding byte (len=%d bs=%d)", n, bs)
					}
				}
				if _, err := PKCS7UnPadding(p[:len(p)-1], bs); err == nil && (len(p)-1)%bs != 0 {
					fail("PKCS7UnPadding accepted misaligned input")
				}
			})
		}
	}
	fmt.Printf("GOVC-BOUNDED name=C08 cases=%d failures=%d bound=\"plaintext lengths 0..%d x key sizes 16/24/32; all 256 final bytes x 18 corruptions of a final block; block sizes 1..255\"\n", cases, fails, maxLen-1)
	if fails > 0 {
		t.Fail()
	}
}
