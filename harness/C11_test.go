package listz

// SAMPLED stand-in for the whole-history clauses of C11 (not exhaustive: real goroutines under the Go race detector).
// The rely-guarantee contracts decide the structural part for every interleaving; this harness exercises what they do
// not state: the values travel with their nodes (exactly once, FIFO per producer), Len() is never negative and never
// below the number of values that can be popped, equals the content when quiescent, PopWait, no race report.

import (
	"fmt"
	"os"
	"sync"
	"sync/atomic"
	"testing"
	"time"
)

func TestGovcBounded_C11(t *testing.T) {
	cases, fails := 0, 0
	var mu sync.Mutex
	fail := func(f string, a ...interface{}) {
		mu.Lock()
		defer mu.Unlock()
		fails++
		if fails <= 5 {
			fmt.Printf("GOVC-FAIL %s\n", fmt.Sprintf(f, a...))
		}
	}
	rounds := 40
	per := 400
	if os.Getenv("VERIF_TIER") == "thorough" {
		rounds, per = 200, 1000
	}
	const P, C = 4, 4
	for r := 0; r < rounds && fails < 3; r++ {
		cases++
		l := NewSync[int]()
		var produced, consumed int64
		deadline := time.Now().Add(20 * time.Second) // a lost value must not hang the harness
		seen := make([]int32, P*per)
		var wg, cwg sync.WaitGroup
		var stop int32
		// Len watcher: never negative
		wg.Add(1)
		go func() {
			defer wg.Done()
			for atomic.LoadInt32(&stop) == 0 {
				if n := l.Len(); n < 0 {
					fail("round %d: Len() = %d", r, n)
					return
				}
			}
		}()
		for c := 0; c < C; c++ {
			cwg.Add(1)
			go func(c int) {
				defer cwg.Done()
				last := make([]int, P)
				for i := range last {
					last[i] = -1
				}
				for atomic.LoadInt64(&consumed) < int64(P*per) && time.Now().Before(deadline) {
					var v int
					var ok bool
					if c%2 == 0 {
						v, ok = l.Pop()
					} else {
						v, ok = l.PopWait(time.Millisecond)
					}
					if !ok {
						continue
					}
					atomic.AddInt64(&consumed, 1)
					if v < 0 || v >= P*per {
						fail("round %d: popped a value that was never pushed: %d", r, v)
						return
					}
					if atomic.AddInt32(&seen[v], 1) != 1 {
						fail("round %d: value %d popped twice", r, v)
						return
					}
					p, k := v/per, v%per
					if k <= last[p] {
						fail("round %d: values of producer %d popped out of order by one consumer (%d after %d)", r, p, k, last[p])
						return
					}
					last[p] = k
				}
			}(c)
		}
		for p := 0; p < P; p++ {
			wg.Add(1)
			go func(p int) {
				defer wg.Done()
				for k := 0; k < per; k++ {
					l.Push(p*per + k)
					atomic.AddInt64(&produced, 1)
				}
			}(p)
		}
		cwg.Wait()
		atomic.StoreInt32(&stop, 1)
		wg.Wait()
		if atomic.LoadInt64(&consumed) != int64(P*per) {
			fail("round %d: only %d of %d pushed values were ever popped (values lost)", r, atomic.LoadInt64(&consumed), P*per)
		}
		for v, n := range seen {
			if n != 1 {
				fail("round %d: value %d popped %d times", r, v, n)
				break
			}
		}
		if l.Len() != 0 {
			fail("round %d: quiescent Len() = %d, want 0", r, l.Len())
		}
		if _, ok := l.Pop(); ok {
			fail("round %d: Pop on the drained list succeeded", r)
		}
		// quiescent content and FIFO, single goroutine
		for i := 0; i < 5; i++ {
			l.Push(i)
		}
		if l.Len() != 5 {
			fail("round %d: Len() = %d after 5 sequential pushes", r, l.Len())
		}
		for i := 0; i < 5; i++ {
			if v, ok := l.PopWait(0); !ok || v != i {
				fail("round %d: sequential FIFO broken: got %d,%v want %d", r, v, ok, i)
				break
			}
		}
		if _, ok := l.PopWait(0); ok {
			fail("round %d: PopWait(0) on an empty list succeeded", r)
		}
	}
	fmt.Printf("GOVC-BOUNDED name=C11 cases=%d failures=%d bound=\"SAMPLED, not exhaustive: %d rounds under the Go race detector, %d producers x %d values against %d consumers (Pop and PopWait) and a Len watcher: every value popped exactly once, per-producer order, Len never negative, quiescent Len and FIFO\"\n", cases, fails, rounds, P, per, C)
	if fails > 0 {
		t.Fail()
	}
}
