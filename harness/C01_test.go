package ringz

// SAMPLED stand-in for the whole-history clauses of C01 (not exhaustive: real goroutines under the Go race detector).
// The rely-guarantee contracts decide the ticket/slot protocol for every interleaving (below 2^31 overlapping
// operations); this harness exercises what they do not state: values travel with their tickets (exactly once, FIFO per
// producer), Len/IsEmpty/IsFull bounds and quiescent exactness, PushWait/PopWait, no race report.

import (
	"fmt"
	"os"
	"sync"
	"sync/atomic"
	"testing"
	"time"
)

func TestGovcBounded_C01(t *testing.T) {
	cases, fails := 0, 0
	var mu sync.Mutex
	fail := func(f string, a ...interface{}) {
		mu.Lock()
		defer mu.Unlock()
		fails++
		if fails <= 5 {
			fmt.Printf("GOVC-FAIL %s\n", fmt.Sprintf(f, a...))
		}
	}
	rounds, per := 6, 300
	if os.Getenv("VERIF_TIER") == "thorough" {
		rounds, per = 60, 1000
	}
	const P, C = 4, 4
	for r := 0; r < rounds && fails < 3; r++ {
		for _, capacity := range []int{1, 2, 3, 8, 64} {
			cases++
			ring := NewSync[int](capacity)
			rc := ring.Cap()
			if rc < capacity || rc&(rc-1) != 0 {
				fail("NewSync(%d).Cap() = %d", capacity, rc)
				continue
			}
			// pre-rotate the ring
			for i := 0; i < r%7; i++ {
				ring.Push(-1)
				ring.Pop()
			}
			seen := make([]int32, P*per)
			var consumed int64
			deadline := time.Now().Add(20 * time.Second) // a lost value must not hang the harness
			var stop int32
			var wg, cwg sync.WaitGroup
			wg.Add(1)
			go func() {
				defer wg.Done()
				for atomic.LoadInt32(&stop) == 0 {
					if n := ring.Len(); n < 0 || n > rc {
						fail("cap %d: Len() = %d", rc, n)
						return
					}
				}
			}()
			for c := 0; c < C; c++ {
				cwg.Add(1)
				go func(c int) {
					defer cwg.Done()
					last := make([]int, P)
					for i := range last {
						last[i] = -1
					}
					for atomic.LoadInt64(&consumed) < int64(P*per) && time.Now().Before(deadline) {
						var v int
						var ok bool
						if c%2 == 0 {
							v, ok = ring.Pop()
						} else {
							v, ok = ring.PopWait(time.Millisecond)
						}
						if !ok {
							continue
						}
						atomic.AddInt64(&consumed, 1)
						if v < 0 || v >= P*per {
							fail("cap %d: popped a value that was never pushed: %d", rc, v)
							return
						}
						if atomic.AddInt32(&seen[v], 1) != 1 {
							fail("cap %d: value %d popped twice", rc, v)
							return
						}
						p, k := v/per, v%per
						if k <= last[p] {
							fail("cap %d: values of producer %d popped out of order by one consumer (%d after %d)", rc, p, k, last[p])
							return
						}
						last[p] = k
					}
				}(c)
			}
			for p := 0; p < P; p++ {
				wg.Add(1)
				go func(p int) {
					defer wg.Done()
					for k := 0; k < per; k++ {
						if p%2 == 0 {
							for !ring.Push(p*per+k) && time.Now().Before(deadline) {
							}
						} else {
							for !ring.PushWait(p*per+k, time.Millisecond) && time.Now().Before(deadline) {
							}
						}
					}
				}(p)
			}
			cwg.Wait()
			atomic.StoreInt32(&stop, 1)
			wg.Wait()
			if atomic.LoadInt64(&consumed) != int64(P*per) {
				fail("cap %d: only %d of %d pushed values were ever popped (values lost)", rc, atomic.LoadInt64(&consumed), P*per)
			}
			for v, n := range seen {
				if n != 1 {
					fail("cap %d: value %d popped %d times", rc, v, n)
					break
				}
			}
			if ring.Len() != 0 || !ring.IsEmpty() || ring.IsFull() {
				fail("cap %d: quiescent empty ring reports Len %d IsEmpty %v IsFull %v", rc, ring.Len(), ring.IsEmpty(), ring.IsFull())
			}
			if _, ok := ring.Pop(); ok {
				fail("cap %d: Pop on the drained ring succeeded", rc)
			}
			for i := 0; i < rc; i++ {
				if !ring.Push(i) {
					fail("cap %d: sequential Push %d failed on a ring with free slots", rc, i)
				}
			}
			if ring.Push(99) || ring.Len() != rc || !ring.IsFull() {
				fail("cap %d: full ring accepted a value or reports Len %d", rc, ring.Len())
			}
			for i := 0; i < rc; i++ {
				if v, ok := ring.Pop(); !ok || v != i {
					fail("cap %d: sequential FIFO broken: %d,%v want %d", rc, v, ok, i)
					break
				}
			}
		}
	}
	// every rotation incl. the wrap of the 32-bit tickets: rings whose head/tail start k tickets before 2^32 (slot tickets
	// set consistently), driven sequentially through the wrap with Len/IsEmpty/IsFull/FIFO checked at every step
	for _, capacity := range []int{2, 4, 8} {
		for back := uint32(0); back <= uint32(2*capacity); back++ {
			cases++
			ring := NewSync[int](capacity)
			rc := ring.Cap()
			start := uint32(0) - back
			ring.head, ring.tail = start, start
			for k := 0; k < rc; k++ {
				t := start + uint32(k)
				ring.values[t&ring.mask].pos = t
			}
			n, next, want := 0, 0, 0
			for step := 0; step < 6*rc; step++ {
				if step%(2*rc) < rc+1 {
					ok := ring.Push(next)
					if ok != (n < rc) {
						fail("cap %d start 2^32-%d: Push with %d elements returned %v", rc, back, n, ok)
						break
					}
					if ok {
						n++
						next++
					}
				} else {
					v, ok := ring.Pop()
					if ok != (n > 0) || (ok && v != want) {
						fail("cap %d start 2^32-%d: Pop with %d elements returned %d,%v want %d", rc, back, n, v, ok, want)
						break
					}
					if ok {
						n--
						want++
					}
				}
				if ring.Len() != n || ring.IsEmpty() != (n == 0) || ring.IsFull() != (n == rc) {
					fail("cap %d start 2^32-%d (head=%d tail=%d): %d elements but Len %d IsEmpty %v IsFull %v", rc, back, ring.head, ring.tail, n, ring.Len(), ring.IsEmpty(), ring.IsFull())
					break
				}
			}
		}
	}
	fmt.Printf("GOVC-BOUNDED name=C01 cases=%d failures=%d bound=\"SAMPLED, not exhaustive: %d rounds x capacities {1,2,3,8,64} (pre-rotated) under the Go race detector, %d producers x %d values (Push and PushWait) against %d consumers (Pop and PopWait) and a Len watcher: exactly once, per-producer order, 0 <= Len <= Cap, quiescent exactness, full/empty behaviour; plus, exhaustively, capacities {2,4,8} started 0..2*cap tickets before the 2^32 wrap and driven sequentially through it (Len/IsEmpty/IsFull/FIFO exact at every step)\"\n", cases, fails, rounds, P, per, C)
	if fails > 0 {
		t.Fail()
	}
}
