package slicez

// Bounded stand-in for the clauses of C14 not covered by contracts (Values, ChunkProcess call trace,
// FlexSlice as a sequence over operation histories) plus an executable cross-check of the proved ones.

import (
	"fmt"
	"os"
	"reflect"
	"sort"
	"testing"
)

func TestGovcBounded_C14(t *testing.T) {
	cases, fails := 0, 0
	fail := func(f string, a ...interface{}) {
		fails++
		if fails <= 5 {
			fmt.Printf("GOVC-FAIL %s\n", fmt.Sprintf(f, a...))
		}
	}
	guard := func(what string, f func()) {
		defer func() {
			if r := recover(); r != nil {
				fail("%s panics: %v", what, r)
			}
		}()
		f()
	}
	maxLen := 5
	if os.Getenv("VERIF_TIER") == "thorough" {
		maxLen = 6
	}
	var all [][]int
	var gen func(cur []int)
	gen = func(cur []int) {
		all = append(all, append([]int(nil), cur...))
		if len(cur) == maxLen {
			return
		}
		for v := 0; v < 3; v++ {
			gen(append(cur, v))
		}
	}
	gen(nil)
	in := func(x int, s []int) bool {
		for _, y := range s {
			if x == y {
				return true
			}
		}
		return false
	}
	eq := func(a, b []int) bool { return len(a) == len(b) && (len(a) == 0 || reflect.DeepEqual(a, b)) }
	sorted := func(a []int) []int { b := append([]int(nil), a...); sort.Ints(b); return b }
	small := all
	if len(small) > 121 {
		small = all[:121] // second operands: all slices up to length 4
	}
	for _, s1 := range all {
		// unary operations
		cases++
		guard(fmt.Sprintf("unary %v", s1), func() {
			var wantU []int
			for i, v := range s1 {
				if !in(v, s1[:i]) {
					wantU = append(wantU, v)
				}
			}
			if got := Unique(nil, s1); !eq(got, wantU) {
				fail("Unique(%v) = %v, want %v", s1, got, wantU)
			}
			c := append([]int(nil), s1...)
			if got := Unique(c[:0], c); !eq(got, wantU) {
				fail("Unique(s[:0], %v) = %v, want %v", s1, got, wantU)
			}
			c = append([]int(nil), s1...)
			if got := UniqueInPlace(c); !eq(got, wantU) || !eq(sorted(c), sorted(s1)) {
				fail("UniqueInPlace(%v) = %v (arg now %v), want %v", s1, got, c, wantU)
			}
			key := func(v int) int { return v % 2 }
			var wantK []int
			seen := map[int]bool{}
			for _, v := range s1 {
				if !seen[key(v)] {
					seen[key(v)] = true
					wantK = append(wantK, v)
				}
			}
			c = append([]int(nil), s1...)
			if got := UniqueByKey(c[:0], c, key); !eq(got, wantK) {
				fail("UniqueByKey(s[:0], %v) = %v, want %v", s1, got, wantK)
			}
			c = append([]int(nil), s1...)
			if got := UniqueByKeyInPlace(c, key); !eq(got, wantK) || !eq(sorted(c), sorted(s1)) {
				fail("UniqueByKeyInPlace(%v) = %v (arg now %v)", s1, got, c)
			}
			pred := func(v int) bool { return v != 1 }
			var wantF []int
			for _, v := range s1 {
				if pred(v) {
					wantF = append(wantF, v)
				}
			}
			c = append([]int(nil), s1...)
			if got := Filter(c[:0], c, pred); !eq(got, wantF) {
				fail("Filter(s[:0], %v) = %v", s1, got)
			}
			c = append([]int(nil), s1...)
			if got := FilterInPlace(c, pred); !eq(got, wantF) || !eq(sorted(c), sorted(s1)) {
				fail("FilterInPlace(%v) = %v (arg now %v)", s1, got, c)
			}
			// Chunk / ChunkProcess / Copy / SubSlice / Remove / Values for all small integer arguments
			for cs := -1; cs <= len(s1)+1; cs++ {
				chunks := Chunk(s1, cs)
				var cat []int
				for i, ch := range chunks {
					cat = append(cat, ch...)
					if cs >= 1 && len(s1) > cs && ((i < len(chunks)-1 && len(ch) != cs) || len(ch) == 0 || len(ch) > cs) {
						fail("Chunk(%v, %d) piece %d has length %d", s1, cs, i, len(ch))
					}
				}
				if !eq(cat, s1) {
					fail("Chunk(%v, %d) concatenates to %v", s1, cs, cat)
				}
				var trace []int
				n := 0
				ChunkProcess(s1, cs, func(p []int) error { trace = append(trace, p...); n++; return nil })
				if !eq(trace, s1) || n != len(chunks) {
					fail("ChunkProcess(%v, %d) saw %v in %d calls (Chunk gives %d)", s1, cs, trace, n, len(chunks))
				}
			}
			for st := -2; st <= len(s1)+1; st++ {
				for ln := -2; ln <= len(s1)+2; ln++ {
					ext := append(append([]int(nil), s1...), 99, 98)[:len(s1)] // spare capacity with stale data
					got := Copy(ext, st, ln)
					var want []int
					if len(s1) > 0 && st < len(s1) && ln != 0 {
						b := st
						if b < 0 {
							b = 0
						}
						e := len(s1)
						if ln > 0 && b+ln < e {
							e = b + ln
						}
						want = s1[b:e]
					}
					if !eq(got, want) {
						fail("Copy(%v, %d, %d) = %v, want %v", s1, st, ln, got, want)
					}
					if len(got) > 0 {
						got[0] = -7
						if ext[0] == -7 || (st > 0 && st < len(ext) && ext[st] == -7) {
							fail("Copy(%v, %d, %d) shares memory with its argument", s1, st, ln)
						}
					}
					sub := SubSlice(s1, st, ln)
					var wantS []int
					b, e := st, ln
					if b <= len(s1) {
						if b < 0 {
							b = 0
						}
						if e < 0 || e > len(s1) {
							e = len(s1)
						}
						if b < e {
							wantS = s1[b:e]
						}
					}
					if !eq(sub, wantS) {
						fail("SubSlice(%v, %d, %d) = %v, want %v", s1, st, ln, sub, wantS)
					}
				}
				c := append([]int(nil), s1...)
				r, v, ok := Remove(c, st)
				if ok != (st >= 0 && st < len(s1)) {
					fail("Remove(%v, %d) ok=%v", s1, st, ok)
				} else if ok {
					want := append(append([]int(nil), s1[:st]...), s1[st+1:]...)
					if !eq(r, want) || v != s1[st] {
						fail("Remove(%v, %d) = %v, %d", s1, st, r, v)
					}
				} else if !eq(r, s1) {
					fail("Remove(%v, %d) changed the slice to %v", s1, st, r)
				}
			}
			vals := Values(func(v int) int { return v + 10 }, s1, nil, s1[:len(s1)/2])
			var wantV []int
			for _, v := range s1 {
				wantV = append(wantV, v+10)
			}
			for _, v := range s1[:len(s1)/2] {
				wantV = append(wantV, v+10)
			}
			if !eq(vals, wantV) {
				fail("Values over %v = %v, want %v", s1, vals, wantV)
			}
		})
		// binary operations
		for _, s2 := range small {
			cases++
			guard(fmt.Sprintf("binary %v %v", s1, s2), func() {
				var wantD, wantI []int
				for _, v := range s1 {
					if in(v, s2) {
						wantI = append(wantI, v)
					} else {
						wantD = append(wantD, v)
					}
				}
				if got := Diff(nil, s1, s2); !eq(got, wantD) {
					fail("Diff(nil, %v, %v) = %v, want %v", s1, s2, got, wantD)
				}
				c := append([]int(nil), s1...)
				if got := Diff(c[:0], c, s2); !eq(got, wantD) {
					fail("Diff(s1[:0], %v, %v) = %v, want %v", s1, s2, got, wantD)
				}
				c = append([]int(nil), s1...)
				if got := Intersect(c[:0], c, s2); !eq(got, wantI) {
					fail("Intersect(s1[:0], %v, %v) = %v, want %v", s1, s2, got, wantI)
				}
				c = append([]int(nil), s1...)
				if got := DiffInPlaceFirst(c, s2); !eq(got, wantD) || !eq(sorted(c), sorted(s1)) {
					fail("DiffInPlaceFirst(%v, %v) = %v (arg now %v), want %v", s1, s2, got, c, wantD)
				}
				c = append([]int(nil), s1...)
				if got := IntersectInPlaceFirst(c, s2); !eq(got, wantI) || !eq(sorted(c), sorted(s1)) {
					fail("IntersectInPlaceFirst(%v, %v) = %v (arg now %v), want %v", s1, s2, got, c, wantI)
				}
				if Equal(s1, s2) != eq(s1, s2) {
					fail("Equal(%v, %v) wrong", s1, s2)
				}
			})
		}
	}
	// FlexSlice: all operation sequences up to the bound against a plain slice model
	type op struct {
		kind int
		arg  int
	}
	ops := []op{{0, 1}, {0, 3}, {1, 1}, {1, 2}, {2, 0}, {3, 0}, {4, 0}, {4, 1}, {4, 5}, {5, 0}}
	depth := 5
	if os.Getenv("VERIF_TIER") == "thorough" {
		depth = 6
	}
	var run func(seq []op)
	run = func(seq []op) {
		if len(seq) > 0 {
			cases++
			guard(fmt.Sprintf("FlexSlice %v", seq), func() {
				var f FlexSlice[int]
				var model []int
				next := 100
				for _, o := range seq {
					switch o.kind {
					case 0:
						var vs []int
						for i := 0; i < o.arg; i++ {
							vs = append(vs, next)
							next++
						}
						f.Append(vs...)
						model = append(model, vs...)
					case 1:
						var vs []int
						for i := 0; i < o.arg*3; i++ {
							vs = append(vs, next)
							next++
						}
						f.Prepend(vs...)
						model = append(append([]int(nil), vs...), model...)
					case 2:
						v, ok := f.Pop()
						if ok != (len(model) > 0) || (ok && v != model[len(model)-1]) {
							fail("FlexSlice %v: Pop = %d,%v on %v", seq, v, ok, model)
						}
						if ok {
							model = model[:len(model)-1]
						}
					case 3:
						v, ok := f.Shift()
						if ok != (len(model) > 0) || (ok && v != model[0]) {
							fail("FlexSlice %v: Shift = %d,%v on %v", seq, v, ok, model)
						}
						if ok {
							model = model[1:]
						}
					case 4:
						v, ok := f.Remove(o.arg)
						if ok != (o.arg < len(model)) || (ok && v != model[o.arg]) {
							fail("FlexSlice %v: Remove(%d) = %d,%v on %v", seq, o.arg, v, ok, model)
						}
						if ok {
							model = append(append([]int(nil), model[:o.arg]...), model[o.arg+1:]...)
						}
					case 5:
						for i := -1; i <= len(model); i++ {
							v, ok := f.Get(i)
							if ok != (i >= 0 && i < len(model)) || (ok && v != model[i]) {
								fail("FlexSlice %v: Get(%d) = %d,%v on %v", seq, i, v, ok, model)
							}
						}
						sub := f.SubSlice(1, 3)
						var want []int
						if len(model) > 1 {
							e := 3
							if e > len(model) {
								e = len(model)
							}
							want = model[1:e]
						}
						if !eq(sub.Values, want) {
							fail("FlexSlice %v: SubSlice(1,3) = %v on %v", seq, sub.Values, model)
						}
					}
					if !eq(f.Values, model) || f.Len() != len(model) {
						fail("FlexSlice after %v holds %v, model %v", seq, f.Values, model)
						return
					}
				}
			})
		}
		if len(seq) == depth {
			return
		}
		for _, o := range ops {
			run(append(seq, o))
		}
	}
	run(nil)
	fmt.Printf("GOVC-BOUNDED name=C14 cases=%d failures=%d bound=\"all int slices over {0,1,2} up to length %d (second operand up to length 4), all small integer arguments; all FlexSlice histories over 10 operations up to length %d\"\n", cases, fails, maxLen, depth)
	if fails > 0 {
		t.Fail()
	}
}
