package listz

// Bounded stand-in for the parts of C13 the contracts do not reach: whole histories. DList is run in lock step with
// container/list (all histories of a given depth over every operation and every choice among the first handles,
// including removed and foreign ones, and lists copied onto themselves); SList is run against a slice model.

import (
	"container/list"
	"fmt"
	"os"
	"testing"
)

type c13pair struct {
	d *DNode[int]
	s *list.Element
}

func c13fwd(l *DList[int]) []int {
	var out []int
	n := 0
	for e := l.Front(); e != nil; e = e.Next() {
		out = append(out, e.Value)
		if n++; n > 1000 {
			return append(out, -999)
		}
	}
	return out
}

func c13bwd(l *DList[int]) []int {
	var out []int
	n := 0
	for e := l.Back(); e != nil; e = e.Prev() {
		out = append(out, e.Value)
		if n++; n > 1000 {
			return append(out, -999)
		}
	}
	return out
}

func c13sfwd(l *list.List) []int {
	var out []int
	for e := l.Front(); e != nil; e = e.Next() {
		out = append(out, e.Value.(int))
	}
	return out
}

func c13sbwd(l *list.List) []int {
	var out []int
	for e := l.Back(); e != nil; e = e.Prev() {
		out = append(out, e.Value.(int))
	}
	return out
}

func c13eq(a, b []int) bool {
	if len(a) != len(b) {
		return false
	}
	for i := range a {
		if a[i] != b[i] {
			return false
		}
	}
	return true
}

func TestGovcBounded_C13(t *testing.T) {
	cases, fails := 0, 0
	fail := func(f string, a ...interface{}) {
		fails++
		if fails <= 5 {
			fmt.Printf("GOVC-FAIL %s\n", fmt.Sprintf(f, a...))
		}
	}
	thorough := os.Getenv("VERIF_TIER") == "thorough"
	depth := 4
	if thorough {
		depth = 5
	}

	// ---------------- DList against container/list ----------------
	// handle choice: index 0 is a node of another list (foreign), 1..H the first H nodes created in this history
	H := 3
	type op struct {
		kind int
		a, b int
	}
	var ops []op
	for k := 0; k < 2; k++ { // PushFront, PushBack
		ops = append(ops, op{k, 0, 0})
	}
	for k := 2; k <= 8; k++ { // InsertBefore, InsertAfter, Remove, MoveToFront, MoveToBack, InsertNodeBefore, InsertNodeAfter
		for a := 0; a <= H; a++ {
			ops = append(ops, op{k, a, 0})
		}
	}
	for k := 9; k <= 10; k++ { // MoveBefore, MoveAfter
		for a := 0; a <= H; a++ {
			for b := 0; b <= H; b++ {
				ops = append(ops, op{k, a, b})
			}
		}
	}
	for k := 11; k <= 14; k++ { // PushBackDList(self/other), PushFrontDList(self/other)
		ops = append(ops, op{k, 0, 0})
	}
	ops = append(ops, op{15, 0, 0}, op{16, 0, 0}, op{17, 0, 0}) // PushFrontNode, PushBackNode, Init
	hist := make([]int, depth)
	exec := func(zero bool) {
		cases++
		what := func() string {
			s := "DList history"
			if zero {
				s += " (zero value)"
			}
			for _, i := range hist {
				s += fmt.Sprintf(" %v", ops[i])
			}
			return s
		}
		defer func() {
			if r := recover(); r != nil {
				fail("%s panics: %v", what(), r)
			}
		}()
		var l *DList[int]
		if zero {
			l = new(DList[int])
		} else {
			l = NewDoubly[int]()
		}
		m := list.New()
		other := NewDoubly[int]()
		mother := list.New()
		hs := []c13pair{{other.PushBack(100), mother.PushBack(100)}}
		other.PushBack(101)
		mother.PushBack(101)
		serial := 0
		add := func(d *DNode[int], s *list.Element) {
			if (d == nil) != (s == nil) {
				fail("%s: insert result nil-ness differs", what())
				panic("stop")
			}
			if d != nil {
				hs = append(hs, c13pair{d, s})
			}
		}
		for step, oi := range hist {
			o := ops[oi]
			if o.a >= len(hs) || o.b >= len(hs) {
				return // not a new history
			}
			serial++
			v := serial
			ha, hb := hs[o.a], hs[o.b]
			switch o.kind {
			case 0:
				add(l.PushFront(v), m.PushFront(v))
			case 1:
				add(l.PushBack(v), m.PushBack(v))
			case 2:
				add(l.InsertBefore(v, ha.d), m.InsertBefore(v, ha.s))
			case 3:
				add(l.InsertAfter(v, ha.d), m.InsertAfter(v, ha.s))
			case 4:
				r1 := l.Remove(ha.d)
				r2 := m.Remove(ha.s).(int)
				if r1 != r2 {
					fail("%s: Remove returned %d want %d", what(), r1, r2)
					return
				}
			case 5:
				l.MoveToFront(ha.d)
				m.MoveToFront(ha.s)
			case 6:
				l.MoveToBack(ha.d)
				m.MoveToBack(ha.s)
			case 7, 8:
				n := &DNode[int]{Value: v}
				var s *list.Element
				if o.kind == 7 {
					l.InsertNodeBefore(n, ha.d)
					s = m.InsertBefore(v, ha.s)
				} else {
					l.InsertNodeAfter(n, ha.d)
					s = m.InsertAfter(v, ha.s)
				}
				if s != nil {
					hs = append(hs, c13pair{n, s})
				} else if n.Next() != nil || n.Prev() != nil {
					fail("%s: node inserted next to a foreign mark", what())
					return
				}
			case 9:
				l.MoveBefore(ha.d, hb.d)
				m.MoveBefore(ha.s, hb.s)
			case 10:
				l.MoveAfter(ha.d, hb.d)
				m.MoveAfter(ha.s, hb.s)
			case 11:
				l.PushBackDList(l)
				m.PushBackList(m)
			case 12:
				l.PushBackDList(other)
				m.PushBackList(mother)
			case 13:
				l.PushFrontDList(l)
				m.PushFrontList(m)
			case 14:
				l.PushFrontDList(other)
				m.PushFrontList(mother)
			case 15:
				n := &DNode[int]{Value: v}
				l.PushFrontNode(n)
				hs = append(hs, c13pair{n, m.PushFront(v)})
			case 16:
				n := &DNode[int]{Value: v}
				l.PushBackNode(n)
				hs = append(hs, c13pair{n, m.PushBack(v)})
			case 17:
				if step != 0 {
					// Init on a list with nodes leaves their owner pointers dangling (same in container/list): only as first step
					return
				}
				l.Init()
				m.Init()
			}
			if l.Len() != m.Len() {
				fail("%s: Len %d want %d", what(), l.Len(), m.Len())
				return
			}
			if f, w := c13fwd(l), c13sfwd(m); !c13eq(f, w) {
				fail("%s: forward %v want %v", what(), f, w)
				return
			}
			if b, w := c13bwd(l), c13sbwd(m); !c13eq(b, w) {
				fail("%s: backward %v want %v", what(), b, w)
				return
			}
			if f, w := c13fwd(other), c13sfwd(mother); !c13eq(f, w) || other.Len() != 2 {
				fail("%s: the other list was disturbed: %v", what(), f)
				return
			}
			for k, h := range hs {
				dn, dp := h.d.Next(), h.d.Prev()
				sn, sp := h.s.Next(), h.s.Prev()
				if (dn == nil) != (sn == nil) || (dp == nil) != (sp == nil) || (dn != nil && dn.Value != sn.Value.(int)) || (dp != nil && dp.Value != sp.Value.(int)) {
					fail("%s: handle %d has different neighbours", what(), k)
					return
				}
			}
		}
		// All()
		var got []int
		l.All()(func(v int) bool { got = append(got, v); return true })
		if !c13eq(got, c13sfwd(m)) {
			fail("%s: All %v", what(), got)
		}
	}
	var run func(n, maxh int)
	run = func(n, maxh int) {
		if n == depth {
			exec(false)
			if hist[0] <= 1 || ops[hist[0]].kind >= 11 {
				exec(true)
			}
			return
		}
		for i, o := range ops {
			if o.a > maxh || o.b > maxh {
				continue // no such handle can exist yet
			}
			hist[n] = i
			nh := maxh
			switch o.kind {
			case 0, 1, 2, 3, 7, 8, 15, 16:
				nh++
			}
			run(n+1, nh)
		}
	}
	run(0, 0)

	// ---------------- SList against a slice model ----------------
	sdepth := 4
	if thorough {
		sdepth = 5
	}
	type sop struct{ kind, a, b int }
	var sops []sop
	sops = append(sops, sop{0, 0, 0}, sop{1, 0, 0}, sop{2, 0, 0}, sop{3, 0, 0}, sop{4, 0, 0}) // PushFront, PushBack, RemoveFront, PushFrontNode, PushBackNode
	for i := -1; i <= 3; i++ {
		sops = append(sops, sop{5, i, 0}, sop{6, i, 0}, sop{7, i, 0}, sop{8, i, 0}) // InsertAt, InsertNodeAt, Remove, Get
	}
	for i := -1; i <= 2; i++ {
		for j := -1; j <= 2; j++ {
			sops = append(sops, sop{9, i, j}) // Swap
		}
	}
	shist := make([]int, sdepth)
	sexec := func() {
		cases++
		what := func() string {
			s := "SList history"
			for _, i := range shist {
				s += fmt.Sprintf(" %v", sops[i])
			}
			return s
		}
		defer func() {
			if r := recover(); r != nil {
				fail("%s panics: %v", what(), r)
			}
		}()
		l := NewSingly[int]()
		var model []int
		serial := 0
		ins := func(i, v int) {
			if i <= 0 {
				model = append([]int{v}, model...)
			} else if i >= len(model) {
				model = append(model, v)
			} else {
				model = append(model[:i], append([]int{v}, model[i:]...)...)
			}
		}
		for _, oi := range shist {
			o := sops[oi]
			serial++
			v := serial
			switch o.kind {
			case 0:
				l.PushFront(v)
				ins(0, v)
			case 1:
				l.PushBack(v)
				ins(len(model), v)
			case 2:
				e := l.RemoveFront()
				if len(model) == 0 {
					if e != nil {
						fail("%s: RemoveFront on empty", what())
						return
					}
				} else {
					if e == nil || e.Value != model[0] || e.Next() != nil {
						fail("%s: RemoveFront wrong", what())
						return
					}
					model = model[1:]
				}
			case 3:
				l.PushFrontNode(&SNode[int]{Value: v})
				ins(0, v)
			case 4:
				l.PushBackNode(&SNode[int]{Value: v})
				ins(len(model), v)
			case 5:
				l.InsertAt(o.a, v)
				ins(o.a, v)
			case 6:
				l.InsertNodeAt(o.a, &SNode[int]{Value: v})
				ins(o.a, v)
			case 7:
				e := l.Remove(o.a)
				if o.a < 0 || o.a >= len(model) {
					if e != nil {
						fail("%s: Remove out of range returned a node", what())
						return
					}
				} else {
					if e == nil || e.Value != model[o.a] || e.Next() != nil {
						fail("%s: Remove(%d) wrong", what(), o.a)
						return
					}
					model = append(append([]int(nil), model[:o.a]...), model[o.a+1:]...)
				}
			case 8:
				e := l.Get(o.a)
				if o.a < 0 || o.a >= len(model) {
					if e != nil {
						fail("%s: Get out of range", what())
						return
					}
				} else if e == nil || e.Value != model[o.a] {
					fail("%s: Get(%d) wrong", what(), o.a)
					return
				}
			case 9:
				l.Swap(o.a, o.b)
				if o.a >= 0 && o.a < len(model) && o.b >= 0 && o.b < len(model) {
					model[o.a], model[o.b] = model[o.b], model[o.a]
				}
			}
			if l.Len() != len(model) {
				fail("%s: Len %d want %d", what(), l.Len(), len(model))
				return
			}
			var got []int
			n := 0
			var last *SNode[int]
			for e := l.Front(); e != nil; e = e.Next() {
				got = append(got, e.Value)
				last = e
				if n++; n > 100 {
					break
				}
			}
			if !c13eq(got, model) {
				fail("%s: traversal %v want %v", what(), got, model)
				return
			}
			if l.Back() != last {
				fail("%s: Back is not the last node", what())
				return
			}
		}
		var got []int
		l.All()(func(v int) bool { got = append(got, v); return true })
		if !c13eq(got, model) {
			fail("%s: All %v", what(), got)
		}
	}
	var srun func(n int)
	srun = func(n int) {
		if n == sdepth {
			sexec()
			return
		}
		for i := range sops {
			shist[n] = i
			srun(n + 1)
		}
	}
	srun(0)
	fmt.Printf("GOVC-BOUNDED name=C13 cases=%d failures=%d bound=\"DList: all histories of %d operations over %d operation instances (every method, handles: a foreign node and the first %d nodes incl. removed ones, lists copied onto themselves, zero-value and constructed lists) in lock step with container/list; SList: all histories of %d operations over %d instances (indices -1..3) against a slice model\"\n", cases, fails, depth, len(ops), H, sdepth, len(sops))
	if fails > 0 {
		t.Fail()
	}
}
