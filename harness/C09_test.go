package cryptz

// Bounded stand-in for C09: round trips, OpenSSL-compatible layout and key derivation (against an independent
// construction from crypto/md5 + crypto/aes + crypto/cipher), tamper detection of the GCM form, every reader/writer
// chunking from testing/iotest, truncations and garbage on every decryption entry point.

import (
	"bytes"
	"crypto/aes"
	"crypto/cipher"
	"crypto/md5"
	"encoding/base64"
	"encoding/hex"
	"fmt"
	"io"
	"os"
	"testing"
	"testing/iotest"
)

// EVP_BytesToKey(MD5, one round): D1 = md5(secret+salt), D2 = md5(D1+secret+salt), D3 = md5(D2+secret+salt)
func c09kdf(secret, salt []byte) (key, iv []byte) {
	var d, out []byte
	for len(out) < 48 {
		h := md5.New()
		h.Write(d)
		h.Write(secret)
		h.Write(salt)
		d = h.Sum(nil)
		out = append(out, d...)
	}
	return out[:32], out[32:48]
}

type c09chunkWriter struct {
	w io.Writer
	n int
}

func (c *c09chunkWriter) Write(p []byte) (int, error) {
	total := 0
	for len(p) > 0 {
		k := c.n
		if k > len(p) {
			k = len(p)
		}
		m, err := c.w.Write(p[:k])
		total += m
		if err != nil {
			return total, err
		}
		p = p[k:]
	}
	return total, nil
}

func TestGovcBounded_C09(t *testing.T) {
	cases, fails := 0, 0
	fail := func(f string, a ...interface{}) {
		fails++
		if fails <= 5 {
			fmt.Printf("GOVC-FAIL %s\n", fmt.Sprintf(f, a...))
		}
	}
	guard := func(what string, f func()) {
		defer func() {
			if r := recover(); r != nil {
				fail("%s panics: %v", what, r)
			}
		}()
		f()
	}
	thorough := os.Getenv("VERIF_TIER") == "thorough"
	maxLen := 50
	if thorough {
		maxLen = 130
	}
	secrets := [][]byte{{}, []byte("k"), []byte("0123456789abcdef0123456789abcdefX"), {0, 255, 128}}
	plain := func(n int) []byte {
		p := make([]byte, n)
		for i := range p {
			p[i] = byte(i*7 + n)
		}
		return p
	}
	for n := 0; n <= maxLen; n++ {
		p := plain(n)
		for si, secret := range secrets {
			cases++
			what := fmt.Sprintf("len %d secret #%d", n, si)
			guard(what, func() {
				// ---- CBC form ----
				enc, err := Encrypt(p, secret)
				if err != nil {
					fail("%s: Encrypt error %v", what, err)
					return
				}
				raw, err := base64.StdEncoding.DecodeString(string(enc))
				if err != nil || len(raw) != 16+16*(n/16+1) || string(raw[:8]) != "Salted__" {
					fail("%s: Encrypt output is not base64(Salted__ + salt + whole blocks)", what)
					return
				}
				key, iv := c09kdf(secret, raw[8:16])
				blk, _ := aes.NewCipher(key)
				body := append([]byte(nil), raw[16:]...)
				cipher.NewCBCDecrypter(blk, iv).CryptBlocks(body, body)
				pad := int(body[len(body)-1])
				if pad < 1 || pad > 16 || !bytes.Equal(body[:len(body)-pad], p) {
					fail("%s: an independent OpenSSL-style decryption does not recover the plaintext", what)
					return
				}
				if dec, err := Decrypt(enc, secret); err != nil || !bytes.Equal(dec, p) {
					fail("%s: Decrypt(Encrypt(p)) != p (%v)", what, err)
					return
				}
				if dec, err := Decrypt(string(enc), string(secret)); err != nil || !bytes.Equal(dec, p) {
					fail("%s: Decrypt with string arguments differs (%v)", what, err)
					return
				}
				// a message built independently must decrypt
				salt := []byte{1, 2, 3, 4, 5, 6, 7, byte(n)}
				k2, iv2 := c09kdf(secret, salt)
				b2, _ := aes.NewCipher(k2)
				padded := append(append([]byte(nil), p...), bytes.Repeat([]byte{byte(16 - n%16)}, 16-n%16)...)
				cipher.NewCBCEncrypter(b2, iv2).CryptBlocks(padded, padded)
				msg := append(append([]byte("Salted__"), salt...), padded...)
				if dec, err := Decrypt(base64.StdEncoding.EncodeToString(msg), secret); err != nil || !bytes.Equal(dec, p) {
					fail("%s: an independently built OpenSSL message does not decrypt (%v)", what, err)
					return
				}
				// truncations and garbage: never a panic; an error whenever the length is impossible
				for cut := 0; cut < len(raw); cut++ {
					tr := append([]byte(nil), raw[:cut]...)
					_, err := SaltBySecretCBCDecrypt(tr, secret, true)
					if (cut < 32 || cut%16 != 0) && err == nil {
						fail("%s: truncated CBC message of %d bytes accepted", what, cut)
						return
					}
				}
				if n < 20 {
					for cut := 0; cut < len(enc); cut++ {
						Decrypt(enc[:cut], secret)
					}
				}
				// ---- GCM form ----
				for _, ad := range [][]byte{nil, []byte("aad")} {
					g, err := GCMEncrypt(p, secret, ad)
					if err != nil || len(g) != 2*(32+n) {
						fail("%s: GCMEncrypt error or wrong length", what)
						return
					}
					if dec, err := GCMDecrypt(g, secret, ad); err != nil || !bytes.Equal(dec, p) {
						fail("%s: GCMDecrypt(GCMEncrypt(p)) != p (%v)", what, err)
						return
					}
					graw, _ := hex.DecodeString(string(g))
					if string(graw[:8]) != "Salted__" {
						fail("%s: GCM message does not start with Salted__", what)
						return
					}
					if n <= 20 || n%16 == 0 {
						for i := range g { // every single-character corruption of the encoded message
							c := append([]byte(nil), g...)
							if c[i] == '0' {
								c[i] = '1'
							} else {
								c[i] = '0'
							}
							if _, err := GCMDecrypt(c, secret, ad); err == nil {
								fail("%s: GCM message with character %d changed was accepted", what, i)
								return
							}
						}
						for cut := 0; cut < len(g); cut++ {
							if _, err := GCMDecrypt(g[:cut], secret, ad); err == nil {
								fail("%s: truncated GCM message (%d chars) accepted", what, cut)
								return
							}
						}
					}
					if _, err := GCMDecrypt(g, append([]byte("x"), secret...), ad); err == nil {
						fail("%s: GCM message accepted under another secret", what)
						return
					}
					if _, err := GCMDecrypt(g, secret, append([]byte("y"), ad...)); err == nil {
						fail("%s: GCM message accepted under other additional data", what)
						return
					}
				}
				// ---- streams, every chunking ----
				readers := map[string]func(io.Reader) io.Reader{
					"plain": func(r io.Reader) io.Reader { return r }, "one-byte": iotest.OneByteReader, "half": iotest.HalfReader,
					"data+EOF": iotest.DataErrReader, "one-byte data+EOF": func(r io.Reader) io.Reader { return iotest.DataErrReader(iotest.OneByteReader(r)) },
				}
				for rn, mk := range readers {
					for _, wchunk := range []int{1, 3, 1 << 20} {
						var encBuf, decBuf bytes.Buffer
						if err := EncryptStreamTo(&c09chunkWriter{&encBuf, wchunk}, mk(bytes.NewReader(p)), secret); err != nil {
							fail("%s: EncryptStreamTo (%s reader) error %v", what, rn, err)
							return
						}
						e := encBuf.Bytes()
						if len(e) != 16+n || string(e[:8]) != "Salted__" {
							fail("%s: stream message has the wrong layout", what)
							return
						}
						if err := DecryptStreamTo(&c09chunkWriter{&decBuf, wchunk}, mk(bytes.NewReader(e)), secret); err != nil || !bytes.Equal(decBuf.Bytes(), p) {
							fail("%s: DecryptStreamTo(EncryptStreamTo(p)) != p with the %s reader, writer chunk %d (%v)", what, rn, wchunk, err)
							return
						}
						// independent check of the stream form: AES-256-CTR under the same key derivation
						k3, iv3 := c09kdf(secret, e[8:16])
						b3, _ := aes.NewCipher(k3)
						out := make([]byte, n)
						cipher.NewCTR(b3, iv3).XORKeyStream(out, e[16:])
						if !bytes.Equal(out, p) {
							fail("%s: stream message is not AES-256-CTR under EVP_BytesToKey", what)
							return
						}
						for cut := 0; cut < 16 && cut < len(e); cut++ {
							var sink bytes.Buffer
							if err := DecryptStreamTo(&sink, mk(bytes.NewReader(e[:cut])), secret); err == nil {
								fail("%s: stream with a %d-byte header accepted", what, cut)
								return
							}
						}
					}
				}
			})
		}
	}
	// arbitrary garbage
	for n := 0; n < 200; n++ {
		g := make([]byte, n)
		for i := range g {
			g[i] = byte(i*31 + n*17)
		}
		cases++
		guard(fmt.Sprintf("garbage %d", n), func() {
			if _, err := Decrypt(g, "s"); err == nil {
				fail("garbage of %d bytes accepted by Decrypt", n)
			}
			if _, err := GCMDecrypt(g, "s", ""); err == nil {
				fail("garbage of %d bytes accepted by GCMDecrypt", n)
			}
			SaltBySecretCBCDecrypt(append([]byte(nil), g...), "s", false)
			if _, err := SaltBySecretGCMDecrypt(append([]byte(nil), g...), "s", "", false); err == nil {
				fail("garbage of %d bytes accepted by SaltBySecretGCMDecrypt", n)
			}
			var sink bytes.Buffer
			if err := DecryptStreamTo(&sink, bytes.NewReader(g), "s"); err == nil && !(n >= 16 && string(g[:8]) == "Salted__") {
				fail("garbage of %d bytes accepted by DecryptStreamTo", n)
			}
		})
	}
	fmt.Printf("GOVC-BOUNDED name=C09 cases=%d failures=%d bound=\"plaintext lengths 0..%d x 4 secrets (empty, 1 byte, 33 bytes, binary), string and []byte arguments; independent EVP_BytesToKey(MD5)+AES-256-CBC/CTR construction in both directions; every single-character corruption and every truncation of GCM messages (lengths <= 20 and multiples of 16), other secret / additional data; 5 reader chunkings (iotest) x 3 writer chunkings; all truncations of CBC messages; 200 garbage inputs on every decryption entry point\"\n", cases, fails, maxLen)
	if fails > 0 {
		t.Fail()
	}
}
