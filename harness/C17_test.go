package strz

// Bounded stand-in for C17: the rune-slice definitions of Sub, Mask, SubByDisplay, Rev, Len, RemoveRunes,
// validity of results, no panic on arbitrary bytes and arguments, CamelCase/snake_case round trip.

import (
	"fmt"
	"os"
	"strings"
	"testing"
	"unicode/utf8"
)

func TestGovcBounded_C17(t *testing.T) {
	cases, fails := 0, 0
	fail := func(f string, a ...interface{}) {
		fails++
		if fails <= 5 {
			fmt.Printf("GOVC-FAIL %s\n", fmt.Sprintf(f, a...))
		}
	}
	guard := func(what string, f func()) {
		defer func() {
			if r := recover(); r != nil {
				fail("%s panics: %v", what, r)
			}
		}()
		f()
	}
	maxRunes := 4
	if os.Getenv("VERIF_TIER") == "thorough" {
		maxRunes = 5
	}
	// pieces: 1..4 byte runes and invalid bytes / truncated sequences
	pieces := []string{"a", "Z", "é", "世", "😀", "\xff", "\x80", "\xe4\xb8"}
	var strs []string
	var gen func(cur string, n int)
	gen = func(cur string, n int) {
		strs = append(strs, cur)
		if n == maxRunes {
			return
		}
		for _, p := range pieces {
			gen(cur+p, n+1)
		}
	}
	gen("", 0)
	big := []int{1 << 62, 1<<63 - 1}
	for _, s := range strs {
		valid := utf8.ValidString(s)
		runes := []rune(s)
		n := len(runes)
		args := []int{0, 1, 2, 3, n - 1, n, n + 1, n + 7}
		args = append(args, big...)
		cases++
		guard(fmt.Sprintf("Len/Rev %q", s), func() {
			if Len(s) != n {
				fail("Len(%q) = %d, want %d", s, Len(s), n)
			}
			r := Rev(s)
			if valid {
				want := make([]rune, n)
				for i := range runes {
					want[n-1-i] = runes[i]
				}
				if r != string(want) {
					fail("Rev(%q) = %q", s, r)
				}
			}
		})
		for _, a := range args {
			if a < 0 {
				continue
			}
			for _, b := range append([]int{-1}, args...) {
				if b < -1 {
					continue
				}
				cases++
				guard(fmt.Sprintf("Sub(%q,%d,%d)", s, a, b), func() {
					got := Sub(s, a, b)
					if valid {
						var want string
						if s != "" {
							lo, hi := a, n
							if lo > n {
								lo = n
							}
							if b >= 0 && b < n-lo {
								hi = lo + b
							}
							want = string(runes[lo:hi])
						}
						if got != want {
							fail("Sub(%q, %d, %d) = %q, want %q", s, a, b, got, want)
						}
						if !utf8.ValidString(got) {
							fail("Sub(%q, %d, %d) = %q is not valid UTF-8", s, a, b, got)
						}
					}
				})
				if b < 0 {
					continue
				}
				guard(fmt.Sprintf("Mask(%q,%d,%d)", s, a, b), func() {
					for _, m := range []string{"*", "世", "--", ""} {
						got := Mask(s, m, a, b)
						if !valid {
							continue
						}
						want := s
						if a < n && b < n-a {
							mid := n - a - b
							mm := m
							if utf8.RuneCountInString(m) == 1 {
								mm = strings.Repeat(m, mid)
							}
							want = string(runes[:a]) + mm + string(runes[n-b:])
						}
						if got != want {
							fail("Mask(%q, %q, %d, %d) = %q, want %q", s, m, a, b, got, want)
						}
					}
				})
			}
			cases++
			guard(fmt.Sprintf("SubByDisplay(%q,%d)", s, a), func() {
				got := SubByDisplay(s, a)
				if !strings.HasPrefix(s, got) {
					fail("SubByDisplay(%q, %d) = %q is not a prefix", s, a, got)
				}
				if valid {
					w, want := 0, ""
					for _, r := range s {
						d := 2
						if r < utf8.RuneSelf {
							d = 1
						}
						if w+d > a {
							break
						}
						w += d
						want += string(r)
					}
					if got != want {
						fail("SubByDisplay(%q, %d) = %q, want %q", s, a, got, want)
					}
				}
			})
		}
		for pi, pred := range []func(rune) bool{func(r rune) bool { return r == 'a' }, func(r rune) bool { return r > 127 }, func(r rune) bool { return true }, func(r rune) bool { return false }, func(r rune) bool { return r == utf8.RuneError }} {
			cases++
			guard(fmt.Sprintf("RemoveRunes(%q, pred%d)", s, pi), func() {
				got := RemoveRunes(s, pred)
				var want strings.Builder
				for i, r := range s {
					if !pred(r) {
						if r == utf8.RuneError {
							_, w := utf8.DecodeRuneInString(s[i:])
							if w == 1 && valid == false {
								want.WriteRune(r) // an invalid byte that is kept is re-encoded as U+FFFD once a removal has started, or kept verbatim before
								continue
							}
						}
						want.WriteRune(r)
					}
				}
				if valid && got != want.String() {
					fail("RemoveRunes(%q, pred%d) = %q, want %q", s, pi, got, want.String())
				}
			})
		}
	}
	// CamelCaseToSnake(SnakeToCamelCase(x)) = x for lower-case snake_case identifiers (letters after every underscore)
	words := []string{"a", "ab", "x1", "id", "user"}
	var idents []string
	for _, w1 := range words {
		idents = append(idents, w1)
		for _, w2 := range words {
			idents = append(idents, w1+"_"+w2)
			for _, w3 := range words {
				idents = append(idents, w1+"_"+w2+"_"+w3)
			}
		}
	}
	for _, x := range idents {
		cases++
		guard("camel "+x, func() {
			if got := CamelCaseToSnake(SnakeToCamelCase(x, false)); got != x {
				fail("CamelCaseToSnake(SnakeToCamelCase(%q)) = %q", x, got)
			}
			for _, fn := range []func(string) string{UcFirst, LcFirst} {
				if len(fn(x)) != len(x) || fn(x)[1:] != x[1:] {
					fail("UcFirst/LcFirst changed more than the first byte of %q", x)
				}
			}
		})
	}
	fmt.Printf("GOVC-BOUNDED name=C17 cases=%d failures=%d bound=\"all strings of up to %d pieces over {a,Z,é,世,😀,0xff,0x80,truncated 世}; arguments {0,1,2,3,n-1,n,n+1,n+7,2^62,MaxInt}\"\n", cases, fails, maxRunes)
	if fails > 0 {
		t.Fail()
	}
}
