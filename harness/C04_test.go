package heapz

// Bounded stand-in for the parts of C04 the contracts do not reach: whole histories (the multiset view across
// calls), the closure-based Heap.init/Init/New, the Interface-based generic functions of std_heap.go and PopAll.
// Everything is compared with a plain multiset model; the comparator has many ties (key = value / 10).

import (
	"fmt"
	"os"
	"sort"
	"testing"
)

type c04std struct{ a []int }

func (s *c04std) Len() int           { return len(s.a) }
func (s *c04std) Less(i, j int) bool { return s.a[i]/10 < s.a[j]/10 }
func (s *c04std) Swap(i, j int)      { s.a[i], s.a[j] = s.a[j], s.a[i] }
func (s *c04std) Push(x int)         { s.a = append(s.a, x) }
func (s *c04std) Pop() int {
	n := len(s.a) - 1
	x := s.a[n]
	s.a = s.a[:n]
	return x
}

func c04less(a, b int) bool { return a/10 < b/10 }

func c04sortedCopy(a []int) []int {
	b := append([]int(nil), a...)
	sort.Ints(b)
	return b
}

func c04same(a, b []int) bool {
	a, b = c04sortedCopy(a), c04sortedCopy(b)
	if len(a) != len(b) {
		return false
	}
	for i := range a {
		if a[i] != b[i] {
			return false
		}
	}
	return true
}

func c04heapOrdered(a []int) bool {
	for c := 1; c < len(a); c++ {
		if c04less(a[c], a[(c-1)/2]) {
			return false
		}
	}
	return true
}

func c04minKey(a []int) int {
	m := a[0] / 10
	for _, v := range a {
		if v/10 < m {
			m = v / 10
		}
	}
	return m
}

func c04remove(a []int, v int) []int {
	for i, x := range a {
		if x == v {
			return append(append([]int(nil), a[:i]...), a[i+1:]...)
		}
	}
	return nil
}

func TestGovcBounded_C04(t *testing.T) {
	cases, fails := 0, 0
	fail := func(f string, a ...interface{}) {
		fails++
		if fails <= 5 {
			fmt.Printf("GOVC-FAIL %s\n", fmt.Sprintf(f, a...))
		}
	}
	thorough := os.Getenv("VERIF_TIER") == "thorough"
	depth := 5
	if thorough {
		depth = 6
	}

	// ---------- Heap with handles: all histories of the given depth ----------
	// ops: 0..2 push value class, 3 pop, 4 peek, 5..8 remove handle k, 9..12 fix handle k (value changed), 13 remove foreign, 14 fix foreign
	const nops = 15
	pushVals := []int{20, 10, 11} // two values tie (10, 11), one is larger
	hist := make([]int, depth)
	var run func(n int)
	checkHeap := func(h *Heap[int], model map[*Element[int]]bool, what string) bool {
		if h.Len() != len(model) {
			fail("%s: Len=%d want %d", what, h.Len(), len(model))
			return false
		}
		for k, e := range h.values {
			if e == nil || e.index != k || e.heap != h || !model[e] || e.Index() != k {
				fail("%s: slot %d inconsistent", what, k)
				return false
			}
			if k > 0 && c04less(e.Value, h.values[(k-1)/2].Value) {
				fail("%s: heap order broken at %d", what, k)
				return false
			}
		}
		return true
	}
	exec := func(ops []int) {
		cases++
		what := fmt.Sprint("Heap history ", ops)
		defer func() {
			if r := recover(); r != nil {
				fail("%s panics: %v", what, r)
			}
		}()
		h := New[int](0, c04less)
		other := New[int](0, c04less)
		foreign := other.Push(10)
		var handles []*Element[int]
		model := map[*Element[int]]bool{}
		serial := 0
		for _, op := range ops {
			switch {
			case op <= 2:
				serial++
				e := h.Push(pushVals[op] + 0)
				if e == nil || e.Value != pushVals[op] {
					fail("%s: Push returned a wrong element", what)
					return
				}
				handles = append(handles, e)
				model[e] = true
			case op == 3:
				e := h.Pop()
				if len(model) == 0 {
					if e != nil {
						fail("%s: Pop on empty returned an element", what)
						return
					}
					break
				}
				if e == nil || !model[e] {
					fail("%s: Pop returned an element not in the heap", what)
					return
				}
				for o := range model {
					if c04less(o.Value, e.Value) {
						fail("%s: Pop returned %d while %d remains", what, e.Value, o.Value)
						return
					}
				}
				delete(model, e)
				if e.Index() != -1 {
					fail("%s: popped element has Index %d", what, e.Index())
					return
				}
			case op == 4:
				e := h.Peek()
				if len(model) == 0 {
					if e != nil {
						fail("%s: Peek on empty", what)
						return
					}
					break
				}
				if e == nil || !model[e] {
					fail("%s: Peek returned a foreign element", what)
					return
				}
				for o := range model {
					if c04less(o.Value, e.Value) {
						fail("%s: Peek returned %d while %d is in the heap", what, e.Value, o.Value)
						return
					}
				}
			case op <= 8:
				k := op - 5
				if k >= len(handles) {
					return // not a new history
				}
				e := handles[k]
				h.Remove(e)
				delete(model, e) // stale handle: no-op in both
				if e.Index() != -1 {
					fail("%s: removed element has Index %d", what, e.Index())
					return
				}
			case op <= 12:
				k := op - 9
				if k >= len(handles) {
					return
				}
				e := handles[k]
				// move the element to the other end of the order
				if e.Value >= 20 {
					e.Value = 5
				} else {
					e.Value = 35
				}
				h.Fix(e)
				if !model[e] && e.Index() != -1 {
					fail("%s: stale handle has Index %d after Fix", what, e.Index())
					return
				}
			case op == 13:
				h.Remove(foreign)
			case op == 14:
				foreign.Value = 0
				h.Fix(foreign)
			}
			if foreign.Index() != 0 || other.Len() != 1 || other.Peek() != foreign {
				fail("%s: the other heap was disturbed", what)
				return
			}
			if !checkHeap(&h, model, what) {
				return
			}
		}
		// drain: PopAll yields the remaining values in sorted key order
		var rest []int
		for e := range model {
			rest = append(rest, e.Value)
		}
		var got []int
		h.PopAll()(func(v int) bool { got = append(got, v); return true })
		if !c04same(got, rest) {
			fail("%s: PopAll lost or duplicated elements: %v vs %v", what, got, rest)
			return
		}
		for i := 1; i < len(got); i++ {
			if c04less(got[i], got[i-1]) {
				fail("%s: PopAll not sorted: %v", what, got)
				return
			}
		}
		for _, e := range handles {
			if e.Index() != -1 {
				fail("%s: element still has Index %d after draining", what, e.Index())
				return
			}
		}
	}
	run = func(n int) {
		if n == depth {
			exec(hist)
			return
		}
		for op := 0; op < nops; op++ {
			hist[n] = op
			run(n + 1)
		}
	}
	run(0)

	// ---------- Heap.Init / Slice / std functions on all arrays over {5, 10, 11, 20} up to length L ----------
	L := 6
	if thorough {
		L = 7
	}
	alphabet := []int{5, 10, 11, 20}
	var arrs [][]int
	var gen func(cur []int)
	gen = func(cur []int) {
		arrs = append(arrs, append([]int(nil), cur...))
		if len(cur) == L {
			return
		}
		for _, v := range alphabet {
			gen(append(cur, v))
		}
	}
	gen(nil)
	for _, a := range arrs {
		cases++
		what := fmt.Sprint("array ", a)
		func() {
			defer func() {
				if r := recover(); r != nil {
					fail("%s panics: %v", what, r)
				}
			}()
			// Heap.Init
			var h Heap[int]
			h.Init(append([]int(nil), a...), c04less)
			model := map[*Element[int]]bool{}
			var vals []int
			for _, e := range h.values {
				model[e] = true
				vals = append(vals, e.Value)
			}
			if !c04same(vals, a) || !checkHeap(&h, model, what+" Heap.Init") {
				fail("%s: Heap.Init wrong", what)
				return
			}
			// remove every handle in turn from a fresh copy, then check the rest
			for k := range a {
				var g Heap[int]
				g.Init(append([]int(nil), a...), c04less)
				e := g.values[k]
				v := e.Value
				m := map[*Element[int]]bool{}
				for _, x := range g.values {
					m[x] = true
				}
				g.Remove(e)
				delete(m, e)
				if !checkHeap(&g, m, what+" Heap.Remove") || e.Index() != -1 {
					return
				}
				g.Remove(e) // stale: no-op
				if !checkHeap(&g, m, what+" Heap.Remove(stale)") {
					return
				}
				_ = v
			}
			// Slice: FromSlice, Remove(i) / Fix(i) at every index incl. out of range, Pop order
			for i := -1; i <= len(a); i++ {
				s := FromSlice(append([]int(nil), a...), c04less)
				if !c04heapOrdered(s.Values) || !c04same(s.Values, a) {
					fail("%s: FromSlice wrong %v", what, s.Values)
					return
				}
				before := append([]int(nil), s.Values...)
				v, ok := s.Remove(i)
				if ok != (i >= 0 && i < len(a)) {
					fail("%s: Slice.Remove(%d) ok=%v", what, i, ok)
					return
				}
				if ok {
					if v != before[i] || !c04same(s.Values, c04remove(before, v)) {
						fail("%s: Slice.Remove(%d) removed the wrong element", what, i)
						return
					}
				} else if !c04same(s.Values, before) {
					fail("%s: Slice.Remove(%d) changed the heap", what, i)
					return
				}
				if !c04heapOrdered(s.Values) {
					fail("%s: Slice.Remove(%d) broke the order: %v", what, i, s.Values)
					return
				}
				for _, nv := range []int{0, 15, 40} {
					s2 := FromSlice(append([]int(nil), a...), c04less)
					if i >= 0 && i < len(a) {
						s2.Values[i] = nv
					}
					want := append([]int(nil), s2.Values...)
					s2.Fix(i)
					if !c04heapOrdered(s2.Values) || !c04same(s2.Values, want) {
						fail("%s: Slice.Fix(%d) wrong: %v", what, i, s2.Values)
						return
					}
				}
			}
			s := NewSlice[int](0, c04less)
			for _, v := range a {
				s.Push(v)
				if !c04heapOrdered(s.Values) {
					fail("%s: Slice.Push broke the order", what)
					return
				}
			}
			if s.Len() != len(a) {
				fail("%s: Slice.Len", what)
				return
			}
			if len(a) > 0 {
				if p, ok := s.Peek(); !ok || p/10 != c04minKey(a) {
					fail("%s: Slice.Peek", what)
					return
				}
			} else if _, ok := s.Peek(); ok {
				fail("%s: Slice.Peek on empty", what)
				return
			}
			var got []int
			s.PopAll()(func(v int) bool { got = append(got, v); return true })
			if !c04same(got, a) {
				fail("%s: Slice.PopAll multiset %v", what, got)
				return
			}
			for i := 1; i < len(got); i++ {
				if c04less(got[i], got[i-1]) {
					fail("%s: Slice.PopAll not sorted %v", what, got)
					return
				}
			}
			if _, ok := s.Pop(); ok {
				fail("%s: Slice.Pop on empty", what)
				return
			}
			// std functions on an Interface container
			st := &c04std{a: append([]int(nil), a...)}
			Init[int](st)
			if !c04heapOrdered(st.a) || !c04same(st.a, a) {
				fail("%s: Init wrong %v", what, st.a)
				return
			}
			for i := 0; i < len(a); i++ {
				st2 := &c04std{a: append([]int(nil), a...)}
				Init[int](st2)
				before := append([]int(nil), st2.a...)
				v := Remove[int](st2, i).(int)
				if v != before[i] || !c04same(st2.a, c04remove(before, v)) || !c04heapOrdered(st2.a) {
					fail("%s: Remove(%d) wrong: %v", what, i, st2.a)
					return
				}
				for _, nv := range []int{0, 15, 40} {
					st3 := &c04std{a: append([]int(nil), a...)}
					Init[int](st3)
					st3.a[i] = nv
					want := append([]int(nil), st3.a...)
					Fix[int](st3, i)
					if !c04heapOrdered(st3.a) || !c04same(st3.a, want) {
						fail("%s: Fix(%d) wrong: %v", what, i, st3.a)
						return
					}
				}
			}
			st4 := &c04std{}
			for _, v := range a {
				Push[int](st4, v)
				if !c04heapOrdered(st4.a) {
					fail("%s: Push broke the order", what)
					return
				}
			}
			rest := append([]int(nil), a...)
			prev := -1
			for len(rest) > 0 {
				v := Pop[int](st4).(int)
				if v/10 != c04minKey(rest) || v/10 < prev {
					fail("%s: Pop returned %d of %v", what, v, rest)
					return
				}
				prev = v / 10
				rest = c04remove(rest, v)
				if rest == nil && len(st4.a) > 0 {
					fail("%s: Pop returned a value not in the heap", what)
					return
				}
				if !c04heapOrdered(st4.a) || !c04same(st4.a, rest) {
					fail("%s: Pop broke the heap", what)
					return
				}
			}
		}()
	}
	fmt.Printf("GOVC-BOUNDED cases=%d failures=%d bound=\"all Heap histories of %d ops over 15 operations (3 push values with ties, pop, peek, remove/fix by any of the first 4 handles incl. stale ones, foreign handles); Heap.Init, Slice and the Interface-based functions on all arrays of length <= %d over 4 values with ties, Remove/Fix at every index\"\n", cases, fails, depth, L)
	if fails > 0 {
		t.Fail()
	}
}
