#!/bin/bash
# Runs every claimed check on the unchanged tree and validates manifest + evidence against the schemas.
cd "$(dirname "$0")"
TIER="${1:-quick}"
rc=0
for p in $(python3 -c "import json;print(' '.join(c['property_id'] for c in json.load(open('MANIFEST.json'))['checks']))"); do
  out=$(./check $p --tier $TIER 2>&1); e=$?
  echo "$out" | tail -1
  [ $e -ne 0 ] && { echo "$out" | grep -E "VIOLATION|TOOL" | head -5; rc=1; }
done
python3-vt - <<'PY'
import json,jsonschema,glob
man=json.load(open('/verif/MANIFEST.json'))
jsonschema.validate(man, json.load(open('/root/.vp/MANIFEST.schema.json')))
sch=json.load(open('/root/.vp/EVIDENCE.schema.json'))
for c in man['checks']:
    ev=json.load(open(c['evidence_file']))
    jsonschema.validate(ev, sch)
    cov=ev['coverage']
    assert ev['level']==c['level_claimed']['category'], (c['property_id'], ev['level'])
    if ev['level']=='proof':
        assert cov['obligations']==cov['discharged'], c['property_id']
print("manifest and evidence valid")
PY
exit $rc
