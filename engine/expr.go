package main

import (
	"fmt"
	"regexp"
	"go/ast"
	"go/constant"
	"go/token"
	"go/types"
	"math/big"
	"strings"
)

func (st *State) info() *types.Info { return st.pkg().Info }

func (st *State) typeOf(e ast.Expr) types.Type {
	if tv, ok := st.info().Types[e]; ok {
		return st.subst(tv.Type)
	}
	if id, ok := e.(*ast.Ident); ok {
		if o := st.info().ObjectOf(id); o != nil {
			return st.subst(o.Type())
		}
	}
	return nil
}

func exprStr(e ast.Expr) string {
	s := types.ExprString(e)
	if len(s) > 60 {
		s = s[:57] + "..."
	}
	return strings.ReplaceAll(s, " ", "")
}

func (st *State) constVal(tv types.TypeAndValue, t types.Type) (Val, bool) {
	if tv.Value == nil {
		return Val{}, false
	}
	switch tv.Value.Kind() {
	case constant.Bool:
		if constant.BoolVal(tv.Value) {
			return vBool("true"), true
		}
		return vBool("false"), true
	case constant.Int:
		n, ok := new(big.Int).SetString(tv.Value.ExactString(), 10)
		if !ok {
			return Val{}, false
		}
		return vInt(sNum(n), t), true
	case constant.String:
		return st.stringConst(constant.StringVal(tv.Value), t), true
	case constant.Float:
		// only integral float constants are representable
		if constant.ToInt(tv.Value).Kind() == constant.Int {
			n, _ := new(big.Int).SetString(constant.ToInt(tv.Value).ExactString(), 10)
			return vInt(sNum(n), t), true
		}
	}
	return Val{}, false
}

func (st *State) stringConst(s string, t types.Type) Val {
	if t == nil {
		t = types.Typ[types.String]
	}
	if len(s) == 0 {
		return mkString(t, "((as const (Array Int Int)) 0)", "0", "0")
	}
	key := fmt.Sprintf("g_str_%x", s)
	if len(key) > 60 {
		key = fmt.Sprintf("g_strh_%x", hashString(s))
	}
	if !st.fc.declared[key] {
		st.fc.declare(key, "(Array Int Int)")
	}
	// defining facts are (re)asserted per path where used; cheap and keeps states independent
	if len(s) <= 256 {
		var fs []string
		for i := 0; i < len(s); i++ {
			fs = append(fs, sEq(sSel(key, sInt(int64(i))), sInt(int64(s[i]))))
		}
		st.addFact(sAnd(fs...))
	}
	return mkString(t, key, "0", sInt(int64(len(s))))
}

func hashString(s string) uint64 {
	var h uint64 = 1469598103934665603
	for i := 0; i < len(s); i++ {
		h ^= uint64(s[i])
		h *= 1099511628211
	}
	return h
}

// eval evaluates a Go expression to a symbolic value, emitting safety obligations.
func (st *State) eval(e ast.Expr) Val {
	if tv, ok := st.info().Types[e]; ok && tv.Value != nil {
		if v, ok := st.constVal(tv, tv.Type); ok {
			return v
		}
	}
	switch x := e.(type) {
	case *ast.ParenExpr:
		return st.eval(x.X)
	case *ast.Ident:
		return st.evalIdent(x)
	case *ast.BasicLit:
		panic(vcErr("non-constant literal " + x.Value))
	case *ast.BinaryExpr:
		return st.evalBinary(x)
	case *ast.UnaryExpr:
		return st.evalUnary(x)
	case *ast.StarExpr:
		p := st.eval(x.X)
		return st.deref(p, x.Pos(), exprStr(x.X))
	case *ast.SelectorExpr:
		return st.evalSelector(x)
	case *ast.IndexExpr:
		return st.evalIndex(x)
	case *ast.SliceExpr:
		return st.evalSliceExpr(x)
	case *ast.CallExpr:
		vs := st.evalCall(x)
		if len(vs) == 1 {
			return vs[0]
		}
		if len(vs) == 0 {
			return Val{K: KUnit}
		}
		return Val{K: KTuple, Sub: vs}
	case *ast.CompositeLit:
		return st.evalCompositeLit(x)
	case *ast.FuncLit:
		return Val{K: KFunc, T: st.typeOf(x), Fn: &FuncVal{Sig: st.typeOf(x).(*types.Signature)}, Obj: nil, S: "closure", Sub: nil}
	case *ast.TypeAssertExpr:
		panic(vcErr("type assertion not supported"))
	}
	panic(vcErr(fmt.Sprintf("unsupported expression %T (%s)", e, exprStr(e))))
}

func (st *State) evalIdent(x *ast.Ident) Val {
	if x.Name == "_" {
		return Val{K: KUnit}
	}
	obj := st.info().ObjectOf(x)
	switch o := obj.(type) {
	case *types.Nil:
		return Val{K: KNil}
	case *types.Var:
		if v, ok := st.vars[o]; ok {
			if v.K == KSlice && v.Sort == "promoted" {
				return st.snapshotPromoted(v, o.Type().Underlying().(*types.Array))
			}
			return v
		}
		if o.Parent() == o.Pkg().Scope() || (o.Pkg() != nil && o.Pkg() != st.fc.Pkg.Types) {
			return st.globalVal(o)
		}
		panic(vcErr("unbound variable " + x.Name))
	case *types.Const:
		tv := types.TypeAndValue{Value: o.Val(), Type: o.Type()}
		if v, ok := st.constVal(tv, o.Type()); ok {
			return v
		}
	case *types.Func:
		return Val{K: KFunc, T: o.Type(), Obj: o}
	}
	panic(vcErr("unsupported identifier " + x.Name))
}

// globalVal: package-level variables are symbolic constants; their invariants come from
// "global" blocks in the contract file (established by init, which is verified against them).
func (st *State) globalVal(o *types.Var) Val {
	pkgName := ""
	if o.Pkg() != nil {
		pkgName = o.Pkg().Name()
	}
	base := "G_" + pkgName + "_" + o.Name()
	if v, ok := st.ghost["$global$"+base]; ok {
		return v
	}
	comps := flatComps(o.Type())
	terms := make([]string, len(comps))
	for i, c := range comps {
		terms[i] = base + sanitize(c.Path)
		st.fc.declare(terms[i], c.Sort)
	}
	v := unflatten(o.Type(), terms)
	st.ghost["$global$"+base] = v
	if classify(o.Type()) == tcIface || classify(o.Type()) == tcPtr {
		// sentinel errors / package singletons: non-nil and pairwise distinct by identity
		id := st.fc.V.globalID(base)
		st.addFact(sEq(v.S, sInt(int64(-1000-id))))
	} else {
		// globals were allocated before the function was entered
		for _, f := range st.typeFactsAt(v, st.fc.entryAlloc()) {
			st.addFact(f)
		}
	}
	if v.K == KSlice && !o.Exported() {
		// an unexported package-level slice that is never handed out does not alias any parameter
		for _, a := range st.fc.inputArrs {
			st.addFact(sOr(sNot(sEq(v.arr(), a)), sEq(a, "0")))
		}
		st.addFact(sNot(sEq(v.arr(), "0")))
		st.fc.noteAssumption("unexported package-level slice " + pkgName + "." + o.Name() + " is not aliased by any parameter (it is never returned or stored by the package)")
	}
	if v.K == KArray && !o.Exported() {
		if at, ok := o.Type().Underlying().(*types.Array); ok && classify(at.Elem()) == tcSlice {
			// array of slices: component 0 holds the array ids
			for _, a := range st.fc.inputArrs {
				st.addFact(fmt.Sprintf("(forall ((g_k Int)) (! (or (not (= (select %s g_k) %s)) (= %s 0)) :pattern ((select %s g_k))))", v.Sub[0].S, a, a, v.Sub[0].S))
			}
			st.addFact(fmt.Sprintf("(forall ((g_k Int)) (! (and (<= 0 (select %s g_k)) (< (select %s g_k) %s)) :pattern ((select %s g_k))))", v.Sub[0].S, v.Sub[0].S, st.fc.entryAlloc(), v.Sub[0].S))
			st.fc.noteAssumption("slices stored in the unexported package-level array " + pkgName + "." + o.Name() + " are not aliased by any parameter")
		}
	}
	st.fc.noteAssumption("package-level variable " + pkgName + "." + o.Name() + " is only written by init/contracted functions")
	return v
}

func (fc *FuncCtx) entryAlloc() string { return "g_alloc0" }

func (st *State) typeFactsAt(v Val, alloc string) []string {
	save := st.alloc
	st.alloc = alloc
	f := st.typeFacts(v)
	st.alloc = save
	return f
}

func (fc *FuncCtx) noteAssumption(s string) {
	if fc.assumptions == nil {
		fc.assumptions = map[string]bool{}
	}
	fc.assumptions[s] = true
}

func (st *State) evalUnary(x *ast.UnaryExpr) Val {
	switch x.Op {
	case token.NOT:
		v := st.eval(x.X)
		return vBool(sNot(v.S))
	case token.SUB:
		v := st.eval(x.X)
		t := st.typeOf(x)
		return st.arith("-", vInt("0", t), v, t, x.Pos(), exprStr(x))
	case token.ADD:
		return st.eval(x.X)
	case token.XOR:
		v := st.eval(x.X)
		t := st.typeOf(x)
		_, signed, _ := intInfo(t)
		if signed {
			return vInt(sSub(sSub("0", v.S), "1"), t)
		}
		_, hi, _ := intRange(t)
		return vInt(sSub(sNum(hi), v.S), t)
	case token.AND:
		return st.addressOf(x.X)
	}
	panic(vcErr("unsupported unary operator " + x.Op.String()))
}

func (st *State) addressOf(e ast.Expr) Val {
	switch x := e.(type) {
	case *ast.ParenExpr:
		return st.addressOf(x.X)
	case *ast.Ident:
		obj := st.info().ObjectOf(x)
		if _, ok := st.vars[obj]; ok {
			return Val{K: KPtrVar, T: types.NewPointer(obj.Type()), Obj: obj}
		}
	case *ast.CompositeLit:
		v := st.evalCompositeLit(x)
		t := st.typeOf(x)
		ref := st.allocObject(t)
		st.storePointee(ref, t, v)
		return vInt(ref, types.NewPointer(t))
	case *ast.IndexExpr:
		base := st.eval(x.X)
		if base.K == KSlice {
			idx := st.eval(x.Index)
			st.oblige("bounds", "index("+exprStr(x)+")", sAnd(sCmp("<=", "0", idx.S), sCmp("<", idx.S, base.length())), x.Pos())
			return Val{K: KPtrElem, T: types.NewPointer(sliceElemType(base.T)), Sub: []Val{base, idx}}
		}
	case *ast.SelectorExpr:
		// &p.f : pointer into a heap struct; represented as (ref, field) pair
		if sel, ok := st.info().Selections[x]; ok && sel.Kind() == types.FieldVal {
			bt := st.typeOf(x.X)
			if _, isPtr := bt.Underlying().(*types.Pointer); isPtr && len(sel.Index()) == 1 {
				base := st.eval(x.X)
				st.obligeNonNil(base, x.Pos(), exprStr(x.X))
				_, structT := structOf(bt)
				if base.K == KInt && interiorIndex(structT, sel.Obj().Name()) > 0 {
					return st.loadField(nil, base.S, structT, sel.Obj().Name())
				}
				if base.K == KInt {
					return Val{K: KPtrElem, T: types.NewPointer(sel.Obj().Type()), S: sel.Obj().Name(), Sub: []Val{base}, Obj: nil, Sort: "field", Fn: nil}.withStruct(structT)
				}
				// field of a derived pointer (&slice[i].f, &(*localptr).f): pointer = (inner pointer, field index)
				return Val{K: KPtrElem, T: types.NewPointer(sel.Obj().Type()), S: sel.Obj().Name(), Sub: []Val{base, vInt(sInt(int64(sel.Index()[0])), nil)}, Sort: "fieldof"}
			}
			if _, isStruct := bt.Underlying().(*types.Struct); isStruct && len(sel.Index()) == 1 {
				// &x.f for an addressable struct x: pointer into x
				inner := st.addressOf(x.X)
				return Val{K: KPtrElem, T: types.NewPointer(sel.Obj().Type()), S: sel.Obj().Name(), Sub: []Val{inner, vInt(sInt(int64(sel.Index()[0])), nil)}, Sort: "fieldof"}
			}
		}
	}
	panic(vcErr("unsupported address-of " + exprStr(e)))
}

func (v Val) withStruct(t types.Type) Val {
	v.Sub = append(v.Sub, Val{K: KUnit, T: t})
	return v
}

func (st *State) obligeNonNil(p Val, pos token.Pos, what string) {
	if p.K == KPtrVar || p.K == KPtrElem {
		return
	}
	if p.K == KNil {
		st.oblige("nil", "deref("+what+")", "false", pos)
		return
	}
	st.oblige("nil", "deref("+what+")", sNot(sEq(p.S, "0")), pos)
}

func (st *State) deref(p Val, pos token.Pos, what string) Val {
	switch p.K {
	case KPtrVar:
		return st.vars[p.Obj]
	case KPtrElem:
		if p.Sort == "field" {
			structT := p.Sub[1].T
			return st.named(st.loadField(nil, p.Sub[0].S, structT, p.S), p.S)
		}
		if p.Sort == "fieldof" {
			inner := st.deref(p.Sub[0], pos, what)
			k, _ := isNum(p.Sub[1].S)
			return inner.Sub[k.Int64()]
		}
		v := st.loadElem(nil, p.Sub[0], p.Sub[1].S)
		return st.named(v, "elem")
	case KInt:
		st.obligeNonNil(p, pos, what)
		pt := p.T.Underlying().(*types.Pointer).Elem()
		v := st.loadPointee(nil, p.S, pt)
		return st.named(v, "deref")
	}
	panic(vcErr("cannot dereference " + what))
}

func (st *State) storeThrough(p Val, v Val, pos token.Pos, what string) {
	switch p.K {
	case KPtrVar:
		st.vars[p.Obj] = v
	case KPtrElem:
		if p.Sort == "field" {
			st.storeField(p.Sub[0].S, p.Sub[1].T, p.S, v)
			return
		}
		if p.Sort == "fieldof" {
			inner := st.deref(p.Sub[0], pos, what)
			k, _ := isNum(p.Sub[1].S)
			nv := inner
			nv.Sub = append([]Val(nil), inner.Sub...)
			nv.Sub[k.Int64()] = v
			st.storeThrough(p.Sub[0], nv, pos, what)
			return
		}
		st.storeElem(p.Sub[0], p.Sub[1].S, v)
	case KInt:
		st.obligeNonNil(p, pos, what)
		pt := p.T.Underlying().(*types.Pointer).Elem()
		st.storePointee(p.S, pt, v)
	default:
		panic(vcErr("cannot store through " + what))
	}
}

// named gives heap-read values SSA names and typing facts.
func (st *State) named(v Val, prefix string) Val {
	switch v.K {
	case KInt:
		if strings.HasPrefix(v.S, "(") {
			v.S = st.define(prefix, "Int", v.S)
		}
		st.assumeTyped(v)
	case KBool:
		if strings.HasPrefix(v.S, "(") {
			v.S = st.define(prefix, "Bool", v.S)
		}
	case KSlice, KString, KStruct:
		for i := range v.Sub {
			v.Sub[i] = st.named(v.Sub[i], prefix)
		}
		if v.K == KSlice || v.K == KString {
			st.assumeTyped(v)
		}
	case KRaw:
		if strings.HasPrefix(v.S, "(") {
			v.S = st.define(prefix, v.Sort, v.S)
		}
	}
	return v
}

func (st *State) evalSelector(x *ast.SelectorExpr) Val {
	// package-qualified identifier
	if id, ok := x.X.(*ast.Ident); ok {
		if _, isPkg := st.info().ObjectOf(id).(*types.PkgName); isPkg {
			obj := st.info().ObjectOf(x.Sel)
			switch o := obj.(type) {
			case *types.Var:
				return st.globalVal(o)
			case *types.Func:
				return Val{K: KFunc, T: o.Type(), Obj: o}
			}
			panic(vcErr("unsupported qualified identifier " + exprStr(x)))
		}
	}
	sel, ok := st.info().Selections[x]
	if !ok {
		panic(vcErr("unresolved selector " + exprStr(x)))
	}
	if sel.Kind() != types.FieldVal {
		// method value: only used as callee; handled in evalCall
		return Val{K: KFunc, T: sel.Type(), Obj: sel.Obj()}
	}
	cur := st.eval(x.X)
	curT := st.typeOf(x.X)
	return st.selectPath(cur, curT, sel.Index(), x)
}

func (st *State) selectPath(cur Val, curT types.Type, path []int, x *ast.SelectorExpr) Val {
	for _, idx := range path {
		if cur.K == KInt && cur.T != nil {
			// an interior object stands for its own address
			if p, ok := cur.T.Underlying().(*types.Pointer); ok && types.Identical(p.Elem(), curT) {
				curT = cur.T
			}
		}
		s, structT := structOf(curT)
		if s == nil {
			panic(vcErr("selector on non-struct " + curT.String()))
		}
		f := s.Field(idx)
		if _, isPtr := curT.Underlying().(*types.Pointer); isPtr {
			switch cur.K {
			case KPtrVar:
				cur = st.vars[cur.Obj].Sub[idx]
			case KPtrElem:
				cur = st.deref(cur, x.Pos(), exprStr(x.X)).Sub[idx]
			default:
				st.obligeNonNil(cur, x.Pos(), exprStr(x.X))
				if len(path) == 1 {
					st.guardCheck(structT, f.Name(), cur, false, x.Pos(), exprStr(x))
				}
				cur = st.named(st.loadField(nil, cur.S, structT, f.Name()), f.Name())
			}
		} else {
			if cur.K != KStruct {
				panic(vcErr("field access on non-struct value " + exprStr(x)))
			}
			cur = cur.Sub[idx]
		}
		curT = f.Type()
	}
	return cur
}

func (st *State) evalIndex(x *ast.IndexExpr) Val {
	// generic instantiation f[T]
	if tv, ok := st.info().Types[x.X]; ok {
		if _, isSig := tv.Type.Underlying().(*types.Signature); isSig {
			return st.eval(x.X)
		}
	}
	if pv, ok := st.promotedVar(x.X); ok {
		idx := st.eval(x.Index)
		return st.indexVal(pv, pv.T, idx, x.Pos(), exprStr(x))
	}
	base := st.eval(x.X)
	bt := st.typeOf(x.X)
	if classify(bt) == tcMap {
		k := st.eval(x.Index)
		v, _ := st.mapLookup(base, bt, k)
		return v
	}
	idx := st.eval(x.Index)
	return st.indexVal(base, bt, idx, x.Pos(), exprStr(x))
}

func (st *State) indexVal(base Val, bt types.Type, idx Val, pos token.Pos, what string) Val {
	switch base.K {
	case KSlice:
		st.oblige("bounds", "index("+what+")", sAnd(sCmp("<=", "0", idx.S), sCmp("<", idx.S, base.length())), pos)
		return st.named(st.loadElem(nil, base, idx.S), "elem")
	case KString:
		st.oblige("bounds", "index("+what+")", sAnd(sCmp("<=", "0", idx.S), sCmp("<", idx.S, base.length())), pos)
		v := vInt(base.at(idx.S), types.Typ[types.Uint8])
		return st.named(v, "ch")
	case KArray:
		at := base.T.Underlying().(*types.Array)
		st.oblige("bounds", "index("+what+")", sAnd(sCmp("<=", "0", idx.S), sCmp("<", idx.S, sInt(at.Len()))), pos)
		terms := make([]string, len(base.Sub))
		for i, c := range base.Sub {
			terms[i] = sSel(c.S, idx.S)
		}
		return st.named(unflatten(at.Elem(), terms), "ael")
	case KInt:
		// pointer to array
		if p, ok := bt.Underlying().(*types.Pointer); ok {
			if _, isArr := p.Elem().Underlying().(*types.Array); isArr {
				arr := st.deref(base, pos, what)
				return st.indexVal(arr, p.Elem(), idx, pos, what)
			}
		}
	}
	panic(vcErr("unsupported index expression " + what))
}

func (st *State) evalSliceExpr(x *ast.SliceExpr) Val {
	var base Val
	bt := st.typeOf(x.X)
	if pv, ok := st.promotedVar(x.X); ok {
		base, bt = pv, pv.T
	} else {
		base = st.eval(x.X)
	}
	var lo, hi, max *Val
	if x.Low != nil {
		v := st.eval(x.Low)
		lo = &v
	}
	if x.High != nil {
		v := st.eval(x.High)
		hi = &v
	}
	if x.Max != nil {
		v := st.eval(x.Max)
		max = &v
	}
	return st.sliceVal(base, bt, lo, hi, max, x.Pos(), exprStr(x))
}

func (st *State) sliceVal(base Val, bt types.Type, lo, hi, max *Val, pos token.Pos, what string) Val {
	l := "0"
	if lo != nil {
		l = lo.S
	}
	switch base.K {
	case KString:
		h := base.length()
		if hi != nil {
			h = hi.S
		}
		st.oblige("bounds", "slice("+what+")", sAnd(sCmp("<=", "0", l), sCmp("<=", l, h), sCmp("<=", h, base.length())), pos)
		return mkString(base.T, base.content(), st.define("soff", "Int", sAdd(base.soff(), l)), st.define("slen", "Int", sSub(h, l)))
	case KSlice:
		h := base.length()
		if hi != nil {
			h = hi.S
		}
		limit := base.capa()
		m := base.capa()
		if max != nil {
			m = max.S
			st.oblige("bounds", "slice("+what+")", sAnd(sCmp("<=", "0", l), sCmp("<=", l, h), sCmp("<=", h, m), sCmp("<=", m, limit)), pos)
		} else {
			st.oblige("bounds", "slice("+what+")", sAnd(sCmp("<=", "0", l), sCmp("<=", l, h), sCmp("<=", h, limit)), pos)
		}
		return mkSlice(base.T, base.arr(), st.define("off", "Int", sAdd(base.off(), l)), st.define("len", "Int", sSub(h, l)), st.define("cap", "Int", sSub(m, l)))
	case KArray, KInt:
		panic(vcErr("slicing arrays not supported: " + what))
	}
	panic(vcErr("unsupported slice expression " + what))
}

func (st *State) evalCompositeLit(x *ast.CompositeLit) Val {
	t := st.typeOf(x)
	switch classify(t) {
	case tcStruct:
		s := t.Underlying().(*types.Struct)
		v := st.zeroVal(t)
		v.Sub = append([]Val(nil), v.Sub...)
		for i, el := range x.Elts {
			if kv, ok := el.(*ast.KeyValueExpr); ok {
				name := kv.Key.(*ast.Ident).Name
				for j := 0; j < s.NumFields(); j++ {
					if s.Field(j).Name() == name {
						v.Sub[j] = st.coerce(st.eval(kv.Value), s.Field(j).Type())
					}
				}
			} else {
				v.Sub[i] = st.coerce(st.eval(el), s.Field(i).Type())
			}
		}
		return v
	case tcSlice:
		et := t.Underlying().(*types.Slice).Elem()
		n := int64(len(x.Elts))
		arr := st.allocRef()
		sv := mkSlice(t, arr, "0", sInt(n), sInt(n))
		for i, el := range x.Elts {
			if _, ok := el.(*ast.KeyValueExpr); ok {
				panic(vcErr("keyed slice literal"))
			}
			var ev Val
			if cl, ok := el.(*ast.CompositeLit); ok && cl.Type == nil {
				ev = st.evalCompositeLit(cl)
			} else {
				ev = st.eval(el)
			}
			st.storeElem(sv, sInt(int64(i)), st.coerce(ev, et))
		}
		return sv
	case tcArray:
		at := t.Underlying().(*types.Array)
		v := st.zeroVal(t)
		v.Sub = append([]Val(nil), v.Sub...)
		for i, el := range x.Elts {
			if _, ok := el.(*ast.KeyValueExpr); ok {
				panic(vcErr("keyed array literal"))
			}
			ev := flatten(st.coerce(st.eval(el), at.Elem()))
			for j := range v.Sub {
				v.Sub[j].S = sStore(v.Sub[j].S, sInt(int64(i)), ev[j])
			}
		}
		return v
	case tcMap:
		if len(x.Elts) == 0 {
			return st.newMap(t)
		}
	}
	panic(vcErr("unsupported composite literal " + exprStr(x)))
}

// coerce adapts a value to a target type (untyped nil, constants, interface boxing is opaque).
func (st *State) coerce(v Val, t types.Type) Val {
	if v.K == KNil {
		return st.zeroVal(t)
	}
	if t != nil && classify(t) == tcIface && v.T != nil {
		switch classify(v.T) {
		case tcInt, tcBool, tcString, tcStruct, tcSlice, tcArray, tcFloat:
			// storing a non-interface, non-pointer value in an interface: an opaque non-nil token
			tok := st.fc.fresh("iface", "Int")
			st.assume(sCmp(">", tok, "0"))
			return vInt(tok, t)
		}
	}
	if v.K == KInt && t != nil {
		v.T = t
	}
	return v
}

// ---------- arithmetic (int mode) ----------

func (st *State) evalBinary(x *ast.BinaryExpr) Val {
	switch x.Op {
	case token.LAND:
		a := st.eval(x.X)
		st.pushGuard(a.S)
		b := st.eval(x.Y)
		st.popGuard()
		return vBool(sAnd(a.S, b.S))
	case token.LOR:
		a := st.eval(x.X)
		st.pushGuard(sNot(a.S))
		b := st.eval(x.Y)
		st.popGuard()
		return vBool(sOr(a.S, b.S))
	}
	a := st.eval(x.X)
	b := st.eval(x.Y)
	switch x.Op {
	case token.EQL, token.NEQ:
		r := st.equal(a, b, st.typeOf(x.X), st.typeOf(x.Y))
		if x.Op == token.NEQ {
			r = sNot(r)
		}
		return vBool(r)
	case token.LSS, token.LEQ, token.GTR, token.GEQ:
		if a.K == KString || b.K == KString {
			panic(vcErr("string ordering not supported"))
		}
		if classify(st.typeOf(x.X)) == tcFloat {
			panic(vcErr("float comparison not supported"))
		}
		return vBool(sCmp(x.Op.String(), a.S, b.S))
	}
	t := st.typeOf(x)
	if x.Op == token.SHL || x.Op == token.SHR {
		return st.shift(x.Op.String(), a, b, t, st.typeOf(x.Y), x.Pos(), exprStr(x))
	}
	if classify(t) == tcString && x.Op == token.ADD {
		return st.concat(a, b, t)
	}
	if classify(t) == tcString {
		panic(vcErr("unsupported string operator"))
	}
	if classify(t) == tcFloat {
		panic(vcErr("float arithmetic not supported"))
	}
	return st.arith(x.Op.String(), a, b, t, x.Pos(), exprStr(x))
}

func (st *State) equal(a, b Val, ta, tb types.Type) string {
	if a.K == KNil && b.K == KNil {
		return "true"
	}
	if a.K == KNil {
		a, b = b, a
	}
	if b.K == KNil {
		switch a.K {
		case KSlice:
			return sEq(a.arr(), "0")
		case KInt:
			return sEq(a.S, "0")
		case KFunc:
			return "false"
		case KPtrVar, KPtrElem:
			return "false"
		}
		panic(vcErr("nil comparison on unsupported value"))
	}
	switch a.K {
	case KInt:
		if b.K == KPtrVar || b.K == KPtrElem {
			panic(vcErr("comparison of heap and derived pointer"))
		}
		return sEq(a.S, b.S)
	case KBool:
		return sEq(a.S, b.S)
	case KString:
		// equal lengths and equal content
		if n, ok := isNum(b.length()); ok && n.Int64() <= 64 {
			fs := []string{sEq(a.length(), b.length())}
			for i := int64(0); i < n.Int64(); i++ {
				fs = append(fs, sEq(a.at(sInt(i)), b.at(sInt(i))))
			}
			return sAnd(fs...)
		}
		if n, ok := isNum(a.length()); ok && n.Int64() <= 64 {
			return st.equal(b, a, tb, ta)
		}
		return sAnd(sEq(a.length(), b.length()), fmt.Sprintf("(forall ((g_k Int)) (=> (and (<= 0 g_k) (< g_k %s)) (= %s %s)))", a.length(), a.at("g_k"), b.at("g_k")))
	case KStruct:
		var fs []string
		s := a.T.Underlying().(*types.Struct)
		for i := range a.Sub {
			fs = append(fs, st.equal(a.Sub[i], b.Sub[i], s.Field(i).Type(), s.Field(i).Type()))
		}
		return sAnd(fs...)
	case KPtrVar:
		if b.K == KPtrVar {
			if a.Obj == b.Obj {
				return "true"
			}
			return "false"
		}
	}
	panic(vcErr("unsupported equality"))
}

func (st *State) wrapUnsigned(term string, bits uint, op string) string {
	m := sNum(pow2(bits))
	switch op {
	case "+":
		return sIte(sCmp(">=", term, m), sSub(term, m), term)
	case "-":
		return sIte(sCmp("<", term, "0"), sAdd(term, m), term)
	}
	if n, ok := isNum(term); ok {
		return sNum(new(big.Int).Mod(n, pow2(bits)))
	}
	return sApp("mod", term, m)
}

func wrapSigned(term string, bits uint) string {
	h := sNum(pow2(bits - 1))
	m := sNum(pow2(bits))
	return sSub(sApp("mod", sAdd(term, h), m), h)
}

func (st *State) arith(op string, a, b Val, t types.Type, pos token.Pos, what string) Val {
	bits, signed, isInt := intInfo(t)
	if !isInt {
		if tp, ok := t.(*types.TypeParam); ok {
			_ = tp
			// arithmetic on a type parameter constrained to numbers: model as unbounded mathematical integers (assumption)
			st.fc.noteAssumption("arithmetic on type parameter " + t.String() + " is modelled as mathematical integers (no wrap-around, no floats)")
			bits, signed, isInt = 0, true, true
		} else {
			panic(vcErr("arithmetic on non-integer type " + t.String() + " in " + what))
		}
	}
	var r string
	switch op {
	case "+":
		r = sAdd(a.S, b.S)
	case "-":
		r = sSub(a.S, b.S)
	case "*":
		r = st.mulDistribute(a.S, b.S)
	case "/", "%":
		st.oblige("div0", "divisor("+what+")", sNot(sEq(b.S, "0")), pos)
		r = st.divmod(op, a.S, b.S, signed)
		if op == "/" && signed && bits > 0 {
			// MinInt / -1 overflows (wraps in Go); excluded by obligation unless wraps
			return st.finishSigned(r, bits, t, pos, what)
		}
		return vInt(st.define("t", "Int", r), t)
	case "&", "|", "^", "&^":
		return vInt(st.define("t", "Int", st.bitop(op, a.S, b.S, bits, signed, what)), t)
	default:
		panic(vcErr("unsupported operator " + op))
	}
	if bits == 0 {
		return vInt(r, t)
	}
	if !signed {
		return vInt(st.define("t", "Int", st.wrapUnsigned(r, bits, op)), t)
	}
	return st.finishSigned(r, bits, t, pos, what)
}

func (st *State) finishSigned(r string, bits uint, t types.Type, pos token.Pos, what string) Val {
	if _, ok := isNum(r); ok {
		return vInt(r, t)
	}
	if st.fc.Contract != nil && st.fc.Contract.Wraps {
		return vInt(st.define("t", "Int", wrapSigned(r, bits)), t)
	}
	r = st.define("t", "Int", r)
	st.oblige("overflow", "signed("+what+")", inRange(r, t), pos)
	// after the obligation the value is known to be in range on this path
	st.assume(inRange(r, t))
	return vInt(r, t)
}

func (st *State) divmod(op, a, b string, signed bool) string {
	x, ok1 := isNum(a)
	y, ok2 := isNum(b)
	if ok1 && ok2 && y.Sign() != 0 {
		q, m := new(big.Int).QuoRem(x, y, new(big.Int))
		if op == "/" {
			return sNum(q)
		}
		return sNum(m)
	}
	if !ok2 {
		st.modFacts(a, b)
	}
	if !signed {
		if op == "/" {
			return sApp("div", a, b)
		}
		return sApp("mod", a, b)
	}
	// Go truncates toward zero; SMT-LIB div/mod are Euclidean.
	absA := sIte(sCmp(">=", a, "0"), a, sSub("0", a))
	absB := sIte(sCmp(">=", b, "0"), b, sSub("0", b))
	if ok2 && y.Sign() > 0 {
		absB = b
	}
	q := sApp("div", absA, absB)
	if op == "/" {
		sameSign := sEq(sCmp(">=", a, "0"), sCmp(">", b, "0"))
		if ok2 && y.Sign() > 0 {
			sameSign = sCmp(">=", a, "0")
		}
		return sIte(sameSign, q, sSub("0", q))
	}
	m := sApp("mod", absA, absB)
	return sIte(sCmp(">=", a, "0"), m, sSub("0", m))
}

func isPow2Big(n *big.Int) (uint, bool) {
	if n.Sign() <= 0 {
		return 0, false
	}
	k := uint(n.BitLen() - 1)
	if pow2(k).Cmp(n) == 0 {
		return k, true
	}
	return 0, false
}

func (st *State) bitop(op, a, b string, bits uint, signed bool, what string) string {
	x, okA := isNum(a)
	y, okB := isNum(b)
	if okA && okB && x.Sign() >= 0 && y.Sign() >= 0 {
		r := new(big.Int)
		switch op {
		case "&":
			r.And(x, y)
		case "|":
			r.Or(x, y)
		case "^":
			r.Xor(x, y)
		case "&^":
			r.AndNot(x, y)
		}
		return sNum(r)
	}
	if okA && !okB && (op == "&" || op == "|" || op == "^") {
		a, b, x, y, okA, okB = b, a, y, x, okB, okA
	}
	if okB && y.Sign() >= 0 {
		switch op {
		case "&":
			if y.Sign() == 0 {
				return "0"
			}
			if k, ok := isPow2Big(new(big.Int).Add(y, big.NewInt(1))); ok {
				return sApp("mod", a, sNum(pow2(k))) // x & (2^k-1); also right for negative x in two's complement
			}
			if k, ok := isPow2Big(y); ok {
				return sMul(sApp("mod", sApp("div", a, sNum(pow2(k))), "2"), sNum(pow2(k)))
			}
		case "|":
			if y.Sign() == 0 {
				return a
			}
			if k, ok := isPow2Big(y); ok {
				return sIte(sEq(sApp("mod", sApp("div", a, sNum(pow2(k))), "2"), "0"), sAdd(a, sNum(pow2(k))), a)
			}
		case "^":
			if y.Sign() == 0 {
				return a
			}
			if k, ok := isPow2Big(y); ok {
				return sIte(sEq(sApp("mod", sApp("div", a, sNum(pow2(k))), "2"), "0"), sAdd(a, sNum(pow2(k))), sSub(a, sNum(pow2(k))))
			}
		case "&^":
			if y.Sign() == 0 {
				return a
			}
			if k, ok := isPow2Big(new(big.Int).Add(y, big.NewInt(1))); ok {
				// clear the low k bits
				return sSub(a, sApp("mod", a, sNum(pow2(k))))
			}
			if k, ok := isPow2Big(y); ok {
				return sIte(sEq(sApp("mod", sApp("div", a, sNum(pow2(k))), "2"), "0"), a, sSub(a, sNum(pow2(k))))
			}
		}
	}
	if r, ok := st.singleBitOp(op, a, b, bits, signed); ok {
		return r
	}
	var t string
	if signed {
		st.fc.noteAssumption("bitwise " + op + " on signed non-constant operands is an uninterpreted function constrained by arithmetic facts in " + what)
		t = st.fc.V.bitFun(st.fc, op, 0, a, b)
	} else {
		t = st.fc.V.bitFun(st.fc, op, bits, a, b)
	}
	if op == "|" && (bits > 16 || signed) && !strings.Contains(a+b, "g_q") {
		// disjoint bits add up: for every k, a a multiple of 2^k and 0 <= b < 2^k  =>  a | b = a + b (a >= 0)
		st.fc.V.needPow2 = true
		for _, k := range st.shiftAmounts(a) {
			st.addFact(sImp(sAnd(sCmp("<=", "0", k), sCmp("<=", k, "62"), sCmp(">=", a, "0"), sEq(sApp("mod", a, sApp("g_pow2", k)), "0"), sCmp("<=", "0", b), sCmp("<", b, sApp("g_pow2", k))), sEq(t, sAdd(a, b))))
		}
		st.fc.noteAssumption("x | y = x + y when x is a multiple of 2^k and 0 <= y < 2^k: arithmetic fact added at uses whose left operand is a shift (not bit-blasted)")
	}
	if op == "&" && (bits > 16 || signed) && !strings.Contains(a+b, "g_q") {
		// arithmetic facts about masking (true for all non-negative a, b):
		//   b+1 a power of two  =>  a & b = a mod (b+1)
		//   b = a-1, a > 0      =>  (a & b = 0  <=>  a is a power of two)
		st.fc.V.ispow2Prelude()
		st.addFact(sImp(sApp("g_ispow2", sAdd(b, "1")), sEq(t, sApp("mod", a, sAdd(b, "1")))))
		st.addFact(sImp(sAnd(sEq(b, sSub(a, "1")), sCmp(">", a, "0")), sEq(sEq(t, "0"), sApp("g_ispow2", a))))
		st.fc.noteAssumption("x & m is related to x mod (m+1) for m+1 a power of two by an arithmetic fact added at each use (not bit-blasted)")
	}
	return t
}

func (st *State) shift(op string, a, b Val, t, bt types.Type, pos token.Pos, what string) Val {
	bits, signed, _ := intInfo(t)
	if _, bsigned, ok := intInfo(bt); ok && bsigned {
		if _, isConst := isNum(b.S); !isConst {
			st.oblige("shift", "count-nonneg("+what+")", sCmp(">=", b.S, "0"), pos)
		}
	}
	var p string
	if k, ok := isNum(b.S); ok {
		if k.Sign() < 0 {
			panic(vcErr("negative shift count"))
		}
		kk := k.Uint64()
		if kk > 200 {
			kk = 200
		}
		p = sNum(pow2(uint(kk)))
	} else {
		st.fc.V.needPow2 = true
		p = sApp("g_pow2", b.S)
	}
	var r string
	if op == "<<" {
		r = sMul(a.S, p)
		if bits == 0 {
			return vInt(r, t)
		}
		if signed {
			// Go: signed left shift wraps silently; model exactly
			return vInt(st.define("t", "Int", wrapSigned(r, bits)), t)
		}
		return vInt(st.define("t", "Int", st.wrapUnsigned(r, bits, "<<")), t)
	}
	r = sApp("div", a.S, p)
	if x, ok := isNum(a.S); ok {
		if y, ok2 := isNum(p); ok2 {
			q := new(big.Int)
			m := new(big.Int)
			q.DivMod(x, y, m)
			r = sNum(q)
		}
	}
	return vInt(st.define("t", "Int", r), t)
}

// convert implements Go conversions T(x).
func (st *State) convert(v Val, from, to types.Type, pos token.Pos, what string) Val {
	cf, ct := classify(from), classify(to)
	switch {
	case ct == tcInt && (cf == tcInt || cf == tcTParam):
		fb, fs, _ := intInfo(from)
		tb, ts, ok := intInfo(to)
		if !ok || tb == 0 {
			v.T = to
			return v
		}
		if n, isC := isNum(v.S); isC {
			lo, hi, _ := intRange(to)
			if n.Cmp(lo) >= 0 && n.Cmp(hi) <= 0 {
				return vInt(v.S, to)
			}
		}
		if fb != 0 && ((fs == ts && fb <= tb) || (!fs && ts && fb < tb)) {
			return vInt(v.S, to) // widening, value preserved
		}
		if ts {
			return vInt(st.define("cv", "Int", wrapSigned(v.S, tb)), to)
		}
		return vInt(st.define("cv", "Int", sApp("mod", v.S, sNum(pow2(tb)))), to)
	case ct == tcString && (cf == tcString || cf == tcTParamSeq):
		v.T = to
		return v
	case (ct == tcString || ct == tcTParamSeq) && cf == tcSlice:
		// string(b): immutable snapshot of the bytes
		c := st.fc.fresh("strof", "(Array Int Int)")
		h := st.heapGet(elemHeapName(types.Typ[types.Uint8], Comp{Path: ""}), "(Array Int (Array Int Int))")
		st.assume(fmt.Sprintf("(forall ((g_k Int)) (! (= (select %s g_k) (select (select %s %s) (+ %s g_k))) :pattern ((select %s g_k))))", c, h, v.arr(), v.off(), c))
		return mkString(to, c, "0", v.length())
	case ct == tcSlice && cf == tcString && isRuneSlice(to):
		// []rune(s): a fresh slice of the decoded runes (element-wise decoding is not modelled: length and validity only)
		st.fc.V.utf8Prelude()
		st.fc.V.addPrelude("u8count", "(define-fun-rec g_u8count ((c (Array Int Int)) (p Int) (e Int)) Int (ite (>= p e) 0 (+ 1 (g_u8count c (+ p (g_utf8_width c p e)) e))))")
		n := st.define("nrunes", "Int", sApp("g_u8count", v.content(), v.soff(), sAdd(v.soff(), v.length())))
		st.assume(sAnd(sCmp("<=", "0", n), sCmp("<=", n, v.length()), sImp(sCmp(">", v.length(), "0"), sCmp(">=", n, "1"))))
		arr := st.allocRef()
		name := elemHeapName(types.Typ[types.Int32], Comp{Path: ""})
		h := st.heapGet(name, "(Array Int (Array Int Int))")
		row := st.fc.fresh("runes", "(Array Int Int)")
		st.assume(fmt.Sprintf("(forall ((g_k Int)) (! (and (<= 0 (select %s g_k)) (<= (select %s g_k) 1114111)) :pattern ((select %s g_k))))", row, row, row))
		st.noteWrite(name, arr)
		st.heapSet(name, "(Array Int (Array Int Int))", sStore(h, arr, row))
		st.fc.noteAssumption("[]rune(s) yields utf8.RuneCountInString(s) valid code points; their values are not related to s in the model")
		return mkSlice(to, arr, "0", n, n)
	case ct == tcString && cf == tcSlice && isRuneSlice(from):
		c := st.fc.fresh("runestr", "(Array Int Int)")
		ln := st.fc.fresh("slen", "Int")
		st.assume(sAnd(sCmp("<=", v.length(), ln), sCmp("<=", ln, sMul("4", v.length()))))
		st.fc.noteAssumption("string([]rune) yields between len and 4*len bytes; the content is not related to the runes in the model")
		return mkString(to, c, "0", ln)
	case ct == tcSlice && (cf == tcString || cf == tcTParamSeq):
		// []byte(s): fresh array with the same content
		arr := st.allocRef()
		name := elemHeapName(types.Typ[types.Uint8], Comp{Path: ""})
		h := st.heapGet(name, "(Array Int (Array Int Int))")
		if v.soff() == "0" {
			st.heapSet(name, "(Array Int (Array Int Int))", sStore(h, arr, v.content()))
		} else {
			row := st.fc.fresh("row", "(Array Int Int)")
			st.assume(fmt.Sprintf("(forall ((g_k Int)) (! (= (select %s g_k) %s) :pattern ((select %s g_k))))", row, v.at("g_k"), row))
			st.heapSet(name, "(Array Int (Array Int Int))", sStore(h, arr, row))
		}
		st.noteWrite(name, arr)
		return mkSlice(to, arr, "0", v.length(), v.length())
	case ct == tcSlice && cf == tcSlice, ct == tcPtr && cf == tcPtr, ct == tcStruct && cf == tcStruct, ct == tcBool, ct == tcArray && cf == tcArray, ct == tcMap, ct == tcFunc:
		v.T = to
		return v
	case ct == tcString && cf == tcInt:
		// string(r): the UTF-8 encoding of one rune (invalid values encode U+FFFD)
		r := v.S
		invalid := sOr(sCmp("<", r, "0"), sCmp(">", r, "1114111"), sAnd(sCmp("<=", "55296", r), sCmp("<=", r, "57343")))
		rr := st.define("er", "Int", sIte(invalid, "65533", r))
		n := st.define("en", "Int", sIte(sCmp("<", rr, "128"), "1", sIte(sCmp("<", rr, "2048"), "2", sIte(sCmp("<", rr, "65536"), "3", "4"))))
		c := st.fc.fresh("runestr", "(Array Int Int)")
		div := func(a string, d int64) string { return sApp("div", a, sInt(d)) }
		mod64 := func(a string) string { return sApp("mod", a, "64") }
		st.assume(sEq(sSel(c, "0"), sIte(sEq(n, "1"), rr, sIte(sEq(n, "2"), sAdd("192", div(rr, 64)), sIte(sEq(n, "3"), sAdd("224", div(rr, 4096)), sAdd("240", div(rr, 262144)))))))
		st.assume(sEq(sSel(c, "1"), sIte(sEq(n, "2"), sAdd("128", mod64(rr)), sIte(sEq(n, "3"), sAdd("128", mod64(div(rr, 64))), sAdd("128", mod64(div(rr, 4096)))))))
		st.assume(sEq(sSel(c, "2"), sIte(sEq(n, "3"), sAdd("128", mod64(rr)), sAdd("128", mod64(div(rr, 64))))))
		st.assume(sEq(sSel(c, "3"), sAdd("128", mod64(rr))))
		return mkString(to, c, "0", n)
	case ct == tcIface:
		if v.K == KNil {
			return vInt("0", to)
		}
		if v.K == KInt && (cf == tcIface || cf == tcPtr) {
			v.T = to
			return v
		}
		// boxing a non-interface value: opaque non-nil token
		tok := st.fc.fresh("iface", "Int")
		st.assume(sCmp(">", tok, "0"))
		return vInt(tok, to)
	case ct == tcTParam || ct == tcTParamSeq:
		v.T = to
		return v
	}
	panic(vcErr("unsupported conversion " + from.String() + " -> " + to.String() + " in " + what))
}

// modFacts adds true facts about division by a non-constant divisor (the solvers treat it as nonlinear):
// for b > 0: 0 <= a mod b < b; a in [0,b) => a mod b = a, a div b = 0; a in [b,2b) => a mod b = a-b, a div b = 1.
func (st *State) modFacts(a, b string) {
	m := sApp("mod", a, b)
	d := sApp("div", a, b)
	pos := sCmp(">", b, "0")
	f := sImp(pos, sAnd(
		sCmp("<=", "0", m), sCmp("<", m, b),
		sEq(a, sAdd(sMul(b, d), m)),
		sImp(sAnd(sCmp("<=", "0", a), sCmp("<", a, b)), sAnd(sEq(m, a), sEq(d, "0"))),
		sImp(sAnd(sCmp("<=", b, a), sCmp("<", a, sMul("2", b))), sAnd(sEq(m, sSub(a, b)), sEq(d, "1"))),
	))
	if strings.Contains(a, "g_q") || strings.Contains(b, "g_q") || strings.Contains(a, "g_abs") || strings.Contains(a, "g_l_") || strings.Contains(a, "g_ih_") {
		return // inside a quantifier: bound variables cannot be mentioned in path facts
	}
	st.addFact(f)
}

// shiftAmounts returns the shift counts k of subterms (x << k) that define term a (looked up through SSA definitions).
func (st *State) shiftAmounts(a string) []string {
	t := st.fc.expandDefs(a, 0)
	var out []string
	re := regexp.MustCompile(`\(g_pow2 ([^()]+|\([^()]*\))\)`)
	for _, m := range re.FindAllStringSubmatch(t, -1) {
		out = append(out, m[1])
	}
	return out
}

// concat models string concatenation: a fresh immutable content defined pointwise.
func (st *State) concat(a, b Val, t types.Type) Val {
	if n, ok := isNum(a.length()); ok && n.Sign() == 0 {
		return b
	}
	if n, ok := isNum(b.length()); ok && n.Sign() == 0 {
		return a
	}
	c := st.fc.fresh("cat", "(Array Int Int)")
	st.assume(fmt.Sprintf("(forall ((g_k Int)) (! (= (select %s g_k) %s) :pattern ((select %s g_k))))", c,
		sIte(sCmp("<", "g_k", a.length()), a.at("g_k"), b.at(sSub("g_k", a.length()))), c))
	ln := st.define("slen", "Int", sAdd(a.length(), b.length()))
	st.assume(sCmp("<", ln, sNum(pow2(maxLenBits))))
	return mkString(t, c, "0", ln)
}

func isRuneSlice(t types.Type) bool {
	sl, ok := t.Underlying().(*types.Slice)
	if !ok {
		return false
	}
	b, ok := sl.Elem().Underlying().(*types.Basic)
	return ok && b.Kind() == types.Int32
}

var reSingle = []*regexp.Regexp{
	regexp.MustCompile(`^\(mod \(g_pow2 (.+)\) 18446744073709551616\)$`),
	regexp.MustCompile(`^\(g_pow2 (.+)\)$`),
	regexp.MustCompile(`^\(- \(mod \(\+ \(g_pow2 (.+)\) 9223372036854775808\) 18446744073709551616\) 9223372036854775808\)$`),
}
var reCompl = regexp.MustCompile(`^\(- 18446744073709551615 (.+)\)$`)

// singleBit recognises terms denoting 1<<k (possibly complemented) through SSA definitions.
func (st *State) singleBit(t string) (k string, compl bool, ok bool) {
	e := st.fc.expandDefs(t, 0)
	if m := reCompl.FindStringSubmatch(e); m != nil {
		e = m[1]
		compl = true
	}
	for _, re := range reSingle {
		if m := re.FindStringSubmatch(e); m != nil && balanced(m[1]) {
			return m[1], compl, true
		}
	}
	return "", false, false
}

func balanced(s string) bool {
	d := 0
	for _, c := range s {
		if c == '(' {
			d++
		} else if c == ')' {
			d--
			if d < 0 {
				return false
			}
		}
	}
	return d == 0
}

// singleBitOp gives exact integer semantics to w&(1<<k), w|(1<<k), w&^(1<<k), w&^(1<<k) written as w & ^(1<<k),
// and to word-wise and / or / and-not with their per-bit characterisation. The per-bit facts are the integer
// images of 64-bit vector lemmas that are proved separately (lemmas/*.smt2, checked at setup).
func (st *State) singleBitOp(op, a, b string, bits uint, signed bool) (string, bool) {
	if strings.Contains(a+b, "g_q") {
		return "", false
	}
	V := st.fc.V
	w, other := a, b
	k, compl, ok := st.singleBit(b)
	if !ok && (op == "&" || op == "|") {
		if k2, c2, ok2 := st.singleBit(a); ok2 {
			k, compl, ok, w, other = k2, c2, true, b, a
		}
	}
	_ = other
	V.needPow2 = true
	V.bitPrelude()
	if ok {
		limit := "64"
		if signed {
			limit = "63"
		}
		inr := sAnd(sCmp("<=", "0", k), sCmp("<", k, limit))
		p := sApp("g_pow2", k)
		st.addFact(sImp(inr, sCmp(">=", p, "1")))
		bitSet := sEq(sApp("g_bit", w, k), "1")
		var r, newbit string
		switch {
		case op == "&" && !compl:
			return st.define("t", "Int", sIte(sAnd(inr, bitSet), p, "0")), true
		case op == "|" && !compl:
			r, newbit = sIte(sAnd(inr, sNot(bitSet)), sAdd(w, p), w), "1"
		case (op == "&" && compl) || (op == "&^" && !compl):
			r, newbit = sIte(sAnd(inr, bitSet), sSub(w, p), w), "0"
		default:
			return "", false
		}
		rt := st.define("t", "Int", r)
		// per-bit and popcount facts for the updated word
		st.addFact(sImp(inr, fmt.Sprintf("(forall ((g_j Int)) (! (=> (and (<= 0 g_j) (< g_j 64)) (= (g_bit %s g_j) (ite (= g_j %s) %s (g_bit %s g_j)))) :pattern ((g_bit %s g_j))))", rt, k, newbit, w, rt)))
		if newbit == "1" {
			st.addFact(sImp(inr, sEq(sApp("g_pc64", rt), sIte(bitSet, sApp("g_pc64", w), sAdd(sApp("g_pc64", w), "1")))))
		} else {
			st.addFact(sImp(inr, sEq(sApp("g_pc64", rt), sIte(bitSet, sSub(sApp("g_pc64", w), "1"), sApp("g_pc64", w)))))
		}
		st.fc.noteAssumption("single-bit updates of 64-bit words: per-bit and popcount facts are the integer images of bit-vector lemmas proved in lemmas/bits.smt2")
		return rt, true
	}
	if bits != 64 || signed {
		return "", false
	}
	// word-wise operations on two non-constant words
	var fn, comb string
	x, y := a, b
	switch op {
	case "&":
		e := st.fc.expandDefs(b, 0)
		if m := reCompl.FindStringSubmatch(e); m != nil && balanced(m[1]) {
			fn, y = "g_andnotW", m[1]
			comb = "(ite (= (g_bit %[2]s g_j) 1) 0 (g_bit %[1]s g_j))"
		} else {
			fn = "g_andW"
			comb = "(ite (= (g_bit %[2]s g_j) 1) (g_bit %[1]s g_j) 0)"
		}
	case "|":
		fn = "g_orW"
		comb = "(ite (= (g_bit %[2]s g_j) 1) 1 (g_bit %[1]s g_j))"
	case "&^":
		fn = "g_andnotW"
		comb = "(ite (= (g_bit %[2]s g_j) 1) 0 (g_bit %[1]s g_j))"
	default:
		return "", false
	}
	V.addPrelude(fn, fmt.Sprintf("(declare-fun %s (Int Int) Int)", fn))
	rt := st.define("t", "Int", sApp(fn, x, y))
	st.addFact(sAnd(sCmp("<=", "0", rt), sCmp("<=", rt, "18446744073709551615")))
	st.addFact(fmt.Sprintf("(forall ((g_j Int)) (! (=> (and (<= 0 g_j) (< g_j 64)) (= (g_bit %s g_j) %s)) :pattern ((g_bit %s g_j))))", rt, fmt.Sprintf(comb, x, y), rt))
	st.fc.noteAssumption("word-wise and/or/and-not on 64-bit words: per-bit characterisation is the integer image of bit-vector lemmas proved in lemmas/bits.smt2")
	return rt, true
}

// mulDistribute: x * phi where phi is (through SSA definitions) an ite-tree over numerals becomes an ite-tree of
// linear products, which keeps the VC in linear arithmetic after state merging.
func (st *State) mulDistribute(a, b string) string {
	if t, ok := st.iteOfNumerals(b, 0); ok {
		return distribute(a, t)
	}
	if t, ok := st.iteOfNumerals(a, 0); ok {
		return distribute(b, t)
	}
	return sMul(a, b)
}

type iteTree struct {
	cond       string
	thenT, els *iteTree
	num        string
}

func (st *State) iteOfNumerals(t string, depth int) (*iteTree, bool) {
	if depth > 6 {
		return nil, false
	}
	if _, ok := isNum(t); ok {
		if depth == 0 {
			return nil, false // plain constant: ordinary multiplication
		}
		return &iteTree{num: t}, true
	}
	if d, ok := st.fc.defs[t]; ok {
		return st.iteOfNumerals(d, depth+1)
	}
	if strings.HasPrefix(t, "(ite ") {
		args := topLevelArgs(t)
		if len(args) == 3 {
			a, ok1 := st.iteOfNumerals(args[1], depth+1)
			b, ok2 := st.iteOfNumerals(args[2], depth+1)
			if ok1 && ok2 {
				return &iteTree{cond: args[0], thenT: a, els: b}, true
			}
		}
	}
	return nil, false
}

func distribute(x string, t *iteTree) string {
	if t.num != "" {
		return sMul(x, t.num)
	}
	return sIte(t.cond, distribute(x, t.thenT), distribute(x, t.els))
}
