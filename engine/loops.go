package main

import (
	"sort"
	"fmt"
	"go/ast"
	"go/token"
	"go/types"
	"regexp"
	"strconv"
	"strings"
)

// recorder collects what a loop body may modify (dry run).
type recorder struct {
	vars   map[types.Object]bool
	heaps  map[string]bool
	writes map[string][]string // heap name -> array/ref terms written
	alloc  bool
	ghosts map[string]bool
	noted   map[string]bool // heaps for which the written id was recorded before the heapSet
	unknown map[string]bool // heaps written without a recorded id: no frame can be inferred
}

func newRecorder() *recorder {
	return &recorder{vars: map[types.Object]bool{}, heaps: map[string]bool{}, writes: map[string][]string{}, ghosts: map[string]bool{}, noted: map[string]bool{}, unknown: map[string]bool{}}
}

type loopParts struct {
	pos     token.Pos
	label   string
	ord     int
	cond    func(*State) string // nil: no condition (for {})
	body    func(*State) []Outcome
	post    func(*State) []Outcome
	exit    func(*State) // extra facts on normal exit (range loops)
	spec    *LoopSpec
	idxName string
}

var symNum = regexp.MustCompile(`_(\d+)\b`)

// termIsOlderThan: every fresh symbol in the term was created before counter value n.
func termIsOlderThan(term string, n int) bool {
	for _, m := range symNum.FindAllStringSubmatch(term, -1) {
		if strings.HasPrefix(m[0], "_0") && len(m[1]) == 1 {
			continue // initial heap constants H_..._0
		}
		k, err := strconv.Atoi(m[1])
		if err == nil && k > n {
			return false
		}
	}
	return true
}

func (st *State) dryRun(lp *loopParts) *recorder {
	fc := st.fc
	rec := newRecorder()
	saveRec, saveSup := fc.rec, fc.suppress
	fc.rec = rec
	fc.suppress++
	saveDecls, saveDeclared, saveCounter, saveObls := len(fc.decls), fc.declared, fc.counter, len(fc.obls)
	// copy the declared set so that dry-run declarations are rolled back
	nd := make(map[string]bool, len(fc.declared))
	for k, v := range fc.declared {
		nd[k] = v
	}
	fc.declared = nd
	func() {
		defer func() {
			fc.rec, fc.suppress = saveRec, saveSup
			fc.decls = fc.decls[:saveDecls]
			fc.declared = saveDeclared
			fc.obls = fc.obls[:saveObls]
			_ = saveCounter
		}()
		s := st.clone()
		if lp.cond != nil {
			lp.cond(s)
		}
		for _, o := range lp.body(s) {
			if o.kind == oNormal {
				o.st.runAnchor(fmt.Sprintf("loop%d.body-end", lp.ord), lp.pos+1)
			}
			if (o.kind == oNormal || o.kind == oContinue) && lp.post != nil {
				lp.post(o.st)
			}
		}
	}()
	return rec
}

func (st *State) runLoop(lp *loopParts) []Outcome {
	fc := st.fc
	spec := lp.spec
	if fc.ceUnroll > 0 {
		return st.unrollLoop(lp, fc.ceUnroll)
	}
	if spec != nil && spec.Unroll > 0 {
		return st.unrollLoop(lp, spec.Unroll)
	}
	if spec == nil {
		panic(vcErr(fmt.Sprintf("loop %d of %s has no invariant (a loop without contract is an error, not 'true')", lp.ord, fc.Name)))
	}
	tag := fmt.Sprintf("loop%d", lp.ord)
	// 1. invariants hold on entry
	envAt := func(s *State) *SpecEnv {
		return fc.newSpecEnv(s, nil, fc.entrySnap, lp.pos+1, fc.Name+"/"+tag)
	}
	for i, inv := range spec.Invariants {
		st.oblige("inv-entry", fmt.Sprintf("%s/inv%d", tag, i+1), envAt(st).evalBool(inv.Expr), lp.pos)
	}
	// 2. what does the body modify?
	counterBefore := fc.counter
	rec := st.dryRun(lp)
	pre := st.clone()
	// 3. havoc
	h := st.clone()
	// (deterministic order: the numbering of fresh symbols must not depend on map iteration, or the same
	// obligation would reach the solvers in different shapes from run to run)
	var robjs []types.Object
	for obj := range rec.vars {
		robjs = append(robjs, obj)
	}
	sort.Slice(robjs, func(i, j int) bool {
		if robjs[i].Pos() != robjs[j].Pos() {
			return robjs[i].Pos() < robjs[j].Pos()
		}
		return robjs[i].Name() < robjs[j].Name()
	})
	for _, obj := range robjs {
		if _, live := st.vars[obj]; live {
			h.vars[obj] = h.freshVal(obj.Name(), h.subst(obj.Type()))
		}
	}
	var rghosts []string
	for g := range rec.ghosts {
		rghosts = append(rghosts, g)
	}
	sort.Strings(rghosts)
	for _, g := range rghosts {
		if v, ok := st.ghost[g]; ok && !strings.HasPrefix(g, "$") {
			h.ghost[g] = h.freshLike(g, v)
		}
	}
	if rec.alloc {
		na := fc.fresh("alloc", "Int")
		h.assume(sCmp(">=", na, st.alloc))
		h.alloc = na
	}
	var hnames []string
	for n := range rec.heaps {
		hnames = append(hnames, n)
	}
	sortStrings(hnames)
	if loopModifies(spec) {
		// explicit loop frame: modifies clauses evaluated in the pre-loop state
		env := fc.newSpecEnv(h, nil, fc.entrySnap, lp.pos+1, fc.Name+"/"+tag+"/modifies")
		env.vars = pre.vars
		env.heap = pre.heap
		h.havocTargets(env, spec.Modifies, pre.snapshot(nil))
		for _, n := range hnames {
			if !h.havocked[n] {
				h.havocAbove(n, fc.heapSorts[n], pre.alloc, true)
				for _, w := range rec.writes[n] {
					if !fc.isFreshTerm(w) {
						panic(vcErr(fmt.Sprintf("%s/%s: loop writes heap %s which its modifies clause does not mention", fc.Name, tag, n)))
					}
				}
			}
		}
	} else {
		for _, n := range hnames {
			srt := fc.heapSorts[n]
			oldH := st.heapGet(n, srt)
			newH := h.heapHavoc(n, srt)
			// automatic frame: rows/refs that the body cannot reach are unchanged
			ok := !rec.unknown[n]
			var ws []string
			for _, w := range rec.writes[n] {
				if termIsOlderThan(w, counterBefore) {
					ws = append(ws, w)
				} else if w2 := fc.expandDefs(w, 0); termIsOlderThan(w2, counterBefore) && !mentionsHeaps(w2, st.heap, rec.heaps) {
					// defined from loop-invariant state only (e.g. a slice header re-read from an unmodified field)
					ws = append(ws, w2)
				} else if !fc.isFreshTerm(w) {
					ok = false
				}
			}
			if !ok {
				fc.noteWeakFrame(tag, n)
				continue
			}
			var in []string
			seen := map[string]bool{}
			for _, w := range ws {
				if !seen[w] {
					seen[w] = true
					in = append(in, sEq("g_a", w))
				}
			}
			h.assume(fmt.Sprintf("(forall ((g_a Int)) (! (=> (and (< g_a %s) (not %s)) (= (select %s g_a) (select %s g_a))) :pattern ((select %s g_a))))",
				pre.alloc, sOr(in...), newH, oldH, newH))
		}
	}
	// 4. assume invariants at an arbitrary iteration
	for _, inv := range spec.Invariants {
		h.assume(envAt(h).evalBool(inv.Expr))
	}
	var dec0 string
	var outs []Outcome
	// 5. exit path / body path
	bodyState := h
	if lp.cond != nil {
		c := h.clone()
		cv := c.cond(lp)
		exitSt := c.clone()
		exitSt.addFact(guarded(exitSt.guard, sNot(cv)))
		if lp.exit != nil {
			lp.exit(exitSt)
		}
		outs = append(outs, Outcome{st: exitSt, kind: oNormal})
		bodyState = c
		bodyState.addFact(guarded(bodyState.guard, cv))
	}
	if spec.Decreases != nil {
		dec0 = bodyState.define("variant", "Int", envAt(bodyState).eval(spec.Decreases.Expr).S)
	}
	if fc.suppress == 0 {
		// vacuity cover: invariant /\ condition must be satisfiable, otherwise every inv-preserved obligation is void
		cov := &Obligation{Name: fc.Name + "/vacuity/" + tag + "-body-reachable", Kind: "vacuity", Func: fc.Name, Decls: append([]string(nil), fc.decls...), Facts: append(bodyState.facts.slice(), bodyState.guard...), Goal: "false", Expect: "sat"}
		fc.obls = append(fc.obls, cov)
	}
	fc.loopDepth++
	bouts := lp.body(bodyState)
	fc.loopDepth--
	for _, o := range bouts {
		if o.kind == oNormal {
			o.st.runAnchor(tag+".body-end", lp.pos+1)
		}
	}
	for _, o := range bouts {
		switch {
		case o.kind == oNormal || (o.kind == oContinue && (o.label == "" || o.label == lp.label)):
			ends := []Outcome{{st: o.st, kind: oNormal}}
			if lp.post != nil {
				ends = lp.post(o.st)
			}
			for _, e := range ends {
				if e.kind != oNormal {
					panic(vcErr("loop post statement with control flow"))
				}
				for i, inv := range spec.Invariants {
					e.st.oblige("inv-preserved", fmt.Sprintf("%s/inv%d", tag, i+1), envAt(e.st).evalBool(inv.Expr), lp.pos)
				}
				// the lock state (held mutexes and the count of critical sections entered) is tracked concretely per
				// path, so it has to be the same at the back edge as at the loop head: a body that takes and releases
				// a mutex would otherwise enter one critical section per iteration unnoticed
				if len(e.st.locks) > 0 || len(h.locks) > 0 {
					same := true
					for k, v := range e.st.locks {
						if h.locks[k] != v {
							same = false
						}
					}
					for k, v := range h.locks {
						if e.st.locks[k] != v {
							same = false
						}
					}
					e.st.oblige("lock", "lock-state-unchanged-by-iteration("+tag+")", boolStr(same), lp.pos)
				}
				if spec.Decreases != nil {
					d1 := envAt(e.st).eval(spec.Decreases.Expr).S
					e.st.oblige("decreases", tag, sAnd(sCmp("<=", "0", dec0), sCmp("<", d1, dec0)), lp.pos)
				}
			}
		case o.kind == oBreak && (o.label == "" || o.label == lp.label):
			outs = append(outs, Outcome{st: o.st, kind: oNormal})
		default:
			outs = append(outs, o)
		}
	}
	if spec.Decreases == nil && !(fc.Contract != nil && fc.Contract.NoTerm) {
		fc.noteAssumption(fmt.Sprintf("termination of %s/%s is not proved (no decreases clause)", fc.Name, tag))
	}
	for _, o := range outs {
		if o.kind == oNormal {
			o.st.runAnchor(tag+".after", lp.pos+1)
		}
	}
	return outs
}

func (st *State) cond(lp *loopParts) string {
	c := lp.cond(st)
	return st.define("c", "Bool", c)
}

func loopModifies(spec *LoopSpec) bool { return spec != nil && len(spec.Modifies) > 0 }

func (fc *FuncCtx) isFreshTerm(w string) bool { return fc.freshRefs[w] }

func (fc *FuncCtx) noteWeakFrame(tag, heap string) {
	fc.noteAssumption("")
	delete(fc.assumptions, "")
	if fc.weakFrames == nil {
		fc.weakFrames = map[string]bool{}
	}
	fc.weakFrames[tag+":"+heap] = true
}

func (st *State) freshLike(name string, v Val) Val {
	switch v.K {
	case KInt:
		r := v
		r.S = st.fc.fresh(name, "Int")
		return r
	case KBool:
		r := v
		r.S = st.fc.fresh(name, "Bool")
		return r
	case KRaw:
		r := v
		r.S = st.fc.fresh(name, v.Sort)
		return r
	}
	r := v
	r.Sub = make([]Val, len(v.Sub))
	for i := range v.Sub {
		r.Sub[i] = st.freshLike(name, v.Sub[i])
	}
	return r
}

func (st *State) unrollLoop(lp *loopParts, n int) []Outcome {
	cur := []*State{st}
	var outs []Outcome
	if st.fc.ceUnroll > 0 {
		// counterexample mode is a best-effort search: nested loops are unrolled less deeply and the total number of
		// explored loop states is capped, so that it can never exhaust memory (it then simply finds no input)
		st.fc.ceDepth++
		defer func() { st.fc.ceDepth-- }()
		if st.fc.ceDepth > 1 && n > 3 {
			n = 3
		}
	}
	for iter := 0; iter <= n; iter++ {
		var next []*State
		for _, s := range cur {
			if st.fc.ceUnroll > 0 {
				st.fc.ceStates++
				if st.fc.ceStates > 600 {
					continue
				}
			}
			bodySt := s
			if lp.cond != nil {
				c := s.cond(lp)
				if c == "false" {
					e := s
					if lp.exit != nil {
						lp.exit(e)
					}
					outs = append(outs, Outcome{st: e, kind: oNormal})
					continue
				}
				if c != "true" {
					e := s.clone()
					e.addFact(guarded(e.guard, sNot(c)))
					if lp.exit != nil {
						lp.exit(e)
					}
					outs = append(outs, Outcome{st: e, kind: oNormal})
					bodySt = s.clone()
					bodySt.addFact(guarded(bodySt.guard, c))
				}
			}
			if iter == n {
				if st.fc.ceUnroll > 0 {
					continue // counterexample mode: deeper iterations are simply not explored
				}
				// the loop must have terminated by now
				bodySt.oblige("unroll", fmt.Sprintf("loop%d/complete-after-%d", lp.ord, n), "false", lp.pos)
				continue
			}
			for _, o := range lp.body(bodySt) {
				switch {
				case o.kind == oNormal || (o.kind == oContinue && (o.label == "" || o.label == lp.label)):
					if lp.post != nil {
						for _, e := range lp.post(o.st) {
							next = append(next, e.st)
						}
					} else {
						next = append(next, o.st)
					}
				case o.kind == oBreak && (o.label == "" || o.label == lp.label):
					outs = append(outs, Outcome{st: o.st, kind: oNormal})
				default:
					outs = append(outs, o)
				}
			}
		}
		cur = next
		if len(cur) == 0 {
			break
		}
		if len(cur) > 16 && st.fc.ceUnroll > 0 {
			cur = cur[:16]
		}
		if len(cur) > 64 {
			if st.fc.ceUnroll > 0 {
				cur = cur[:64]
			} else {
				// merge is not attempted across iterations; keep path count bounded
				panic(vcErr("unrolled loop forks too much"))
			}
		}
	}
	return outs
}

func (st *State) execFor(x *ast.ForStmt, label string) []Outcome {
	if x.Init != nil {
		outs := st.exec(x.Init)
		if len(outs) != 1 || outs[0].kind != oNormal {
			panic(vcErr("for-init with control flow"))
		}
		st = outs[0].st
	}
	fc := st.fc
	ord := fc.loopOrd[x]
	lp := &loopParts{pos: x.Body.Lbrace, label: label, ord: ord, spec: fc.loopSpec(ord)}
	if x.Cond != nil {
		lp.cond = func(s *State) string { return s.eval(x.Cond).S }
	}
	lp.body = func(s *State) []Outcome {
		s.runAnchor(fmt.Sprintf("loop%d.body-begin", ord), x.Body.Lbrace+1)
		return s.exec(x.Body)
	}
	if x.Post != nil {
		lp.post = func(s *State) []Outcome { return s.exec(x.Post) }
	}
	return st.runLoop(lp)
}

func (fc *FuncCtx) loopSpec(ord int) *LoopSpec {
	if fc.curContract == nil {
		return nil
	}
	return fc.curContract.Loops[ord]
}

// execRange desugars range loops over slices, arrays, strings and integers.
func (st *State) execRange(x *ast.RangeStmt, label string) []Outcome {
	fc := st.fc
	ord := fc.loopOrd[x]
	lp := &loopParts{pos: x.Body.Lbrace, label: label, ord: ord, spec: fc.loopSpec(ord)}
	coll := st.eval(x.X)
	collT := st.typeOf(x.X)
	idxName := fmt.Sprintf("idx%d", ord)
	var keyObj, valObj types.Object
	if id, ok := x.Key.(*ast.Ident); ok && id.Name != "_" {
		if x.Tok == token.DEFINE {
			keyObj = st.info().Defs[id]
		} else {
			keyObj = st.info().ObjectOf(id)
		}
	}
	if id, ok := x.Value.(*ast.Ident); ok && id != nil && id.Name != "_" {
		if x.Tok == token.DEFINE {
			valObj = st.info().Defs[id]
		} else {
			valObj = st.info().ObjectOf(id)
		}
	}
	getIdx := func(s *State) string {
		if keyObj != nil {
			return s.vars[keyObj].S
		}
		return s.ghost[idxName].S
	}
	setIdx := func(s *State, t string) {
		if keyObj != nil {
			s.vars[keyObj] = vInt(t, intType)
			if s.fc.rec != nil {
				s.fc.rec.vars[keyObj] = true
			}
		} else {
			s.ghost[idxName] = vInt(t, intType)
			if s.fc.rec != nil {
				s.fc.rec.ghosts[idxName] = true
			}
		}
	}
	var n string
	switch coll.K {
	case KSlice, KString:
		n = coll.length()
	case KArray:
		n = sInt(coll.T.Underlying().(*types.Array).Len())
	case KInt:
		if classify(collT) == tcInt {
			n = coll.S
		} else if classify(collT) == tcMap {
			return st.execRangeMap(x, label, coll, collT, lp)
		} else {
			panic(vcErr("range over unsupported value " + exprStr(x.X)))
		}
	default:
		panic(vcErr("range over unsupported value " + exprStr(x.X)))
	}
	isString := coll.K == KString && classify(collT) != tcTParamSeq
	setIdx(st, "0")
	if valObj != nil && x.Tok == token.DEFINE {
		st.vars[valObj] = st.zeroVal(st.subst(valObj.Type()))
	}
	// implicit invariant 0 <= idx <= n
	implicit := &Clause{Kind: "invariant", Src: "0 <= idx && idx <= n"}
	_ = implicit
	lp.cond = func(s *State) string {
		return sCmp("<", getIdx(s), n)
	}
	var width string
	lp.body = func(s *State) []Outcome {
		i := getIdx(s)
		s.assume(sCmp("<=", "0", i))
		if isString {
			r, w := s.decodeRune(coll, i)
			width = w
			s.ghost[idxName+"w"] = vInt(w, intType)
			if valObj != nil {
				s.vars[valObj] = vInt(r, types.Typ[types.Int32])
				if s.fc.rec != nil {
					s.fc.rec.vars[valObj] = true
				}
			}
		} else if valObj != nil {
			var v Val
			switch coll.K {
			case KSlice:
				v = s.named(s.loadElem(nil, coll, i), "elem")
			case KString:
				v = s.named(vInt(coll.at(i), types.Typ[types.Uint8]), "ch")
			case KArray:
				terms := make([]string, len(coll.Sub))
				for k, c := range coll.Sub {
					terms[k] = sSel(c.S, i)
				}
				v = s.named(unflatten(coll.T.Underlying().(*types.Array).Elem(), terms), "ael")
			}
			s.vars[valObj] = v
			if s.fc.rec != nil {
				s.fc.rec.vars[valObj] = true
			}
		}
		s.runAnchor(fmt.Sprintf("loop%d.body-begin", ord), x.Body.Lbrace+1)
		return s.exec(x.Body)
	}
	lp.post = func(s *State) []Outcome {
		i := getIdx(s)
		if isString {
			w := s.ghost[idxName+"w"].S
			setIdx(s, s.define("i", "Int", sAdd(i, w)))
		} else {
			setIdx(s, s.define("i", "Int", sAdd(i, "1")))
		}
		return normal(s)
	}
	_ = width
	if lp.spec == nil {
		lp.spec = &LoopSpec{Ordinal: ord}
		if fc.ceUnroll == 0 && (fc.curContract == nil || !fc.permitBareRange) {
			panic(vcErr(fmt.Sprintf("loop %d of %s has no invariant", ord, fc.Name)))
		}
	}
	// add the implicit bounds invariant in front
	specCopy := *lp.spec
	q := fmt.Sprintf("0 <= %s && %s <= %s", "$idx", "$idx", "$n")
	_ = q
	lp.spec = &specCopy
	lp.idxName = idxName
	return st.runRangeLoop(lp, getIdx, n, isString)
}

// runRangeLoop wraps runLoop adding the implicit invariant 0 <= idx <= n via ghost facts.
func (st *State) runRangeLoop(lp *loopParts, getIdx func(*State) string, n string, isString bool) []Outcome {
	origCond := lp.cond
	lp.cond = func(s *State) string {
		i := getIdx(s)
		// implicit invariant (true by construction of range loops): 0 <= idx <= n
		s.assume(sAnd(sCmp("<=", "0", i), sCmp("<=", i, n)))
		return origCond(s)
	}
	return st.runLoop(lp)
}

// execRangeMap: ranging over a map visits its entries in an unspecified order. The loop is modelled as a loop with a
// non-deterministic continuation condition whose body sees an arbitrary entry that is present in the map at that
// moment. Nothing is claimed about which or how many entries are visited (no completeness): invariants must hold for
// any visiting order, and termination is not claimed.
func (st *State) execRangeMap(x *ast.RangeStmt, label string, coll Val, collT types.Type, lp *loopParts) []Outcome {
	fc := st.fc
	ord := fc.loopOrd[x]
	fc.noteAssumption("range over a map: the body is verified for an arbitrary present entry per iteration; which entries are visited, how often, and termination are not modelled")
	var keyObj, valObj types.Object
	if id, ok := x.Key.(*ast.Ident); ok && id.Name != "_" {
		keyObj = st.info().ObjectOf(id)
	}
	if x.Value != nil {
		if id, ok := x.Value.(*ast.Ident); ok && id.Name != "_" {
			valObj = st.info().ObjectOf(id)
		}
	}
	mt := collT.Underlying().(*types.Map)
	lp.cond = func(s *State) string {
		return s.fc.fresh("more", "Bool")
	}
	lp.body = func(s *State) []Outcome {
		k := s.freshVal("mk", s.subst(mt.Key()))
		v, present := s.mapLookup(coll, collT, k)
		s.assume(present)
		if keyObj != nil {
			s.vars[keyObj] = k
			if s.fc.rec != nil {
				s.fc.rec.vars[keyObj] = true
			}
		}
		if valObj != nil {
			s.vars[valObj] = s.named(v, "mv")
			if s.fc.rec != nil {
				s.fc.rec.vars[valObj] = true
			}
		}
		s.runAnchor(fmt.Sprintf("loop%d.body-begin", ord), x.Body.Lbrace+1)
		return s.exec(x.Body)
	}
	lp.post = func(s *State) []Outcome { return normal(s) }
	if lp.spec == nil {
		lp.spec = &LoopSpec{Ordinal: ord}
		if fc.ceUnroll == 0 && (fc.curContract == nil || !fc.permitBareRange) {
			panic(vcErr(fmt.Sprintf("loop %d of %s has no invariant", ord, fc.Name)))
		}
	}
	return st.runLoop(lp)
}

// utf8Prelude defines Go's UTF-8 decoding exactly (unicode/utf8.DecodeRune): position p, end e (absolute indices into c).
func (V *Verifier) utf8Prelude() {
	if V.preludeSeen["utf8"] {
		return
	}
	cont := func(b string) string { return "(and (<= 128 " + b + ") (<= " + b + " 191))" }
	b0, b1, b2, b3 := "(select c p)", "(select c (+ p 1))", "(select c (+ p 2))", "(select c (+ p 3))"
	v2 := "(and (<= 194 " + b0 + ") (<= " + b0 + " 223) (>= (- e p) 2) " + cont(b1) + ")"
	v3 := "(and (>= (- e p) 3) " + cont(b2) + " (or (and (= " + b0 + " 224) (<= 160 " + b1 + ") (<= " + b1 + " 191)) (and (or (and (<= 225 " + b0 + ") (<= " + b0 + " 236)) (and (<= 238 " + b0 + ") (<= " + b0 + " 239))) " + cont(b1) + ") (and (= " + b0 + " 237) (<= 128 " + b1 + ") (<= " + b1 + " 159))))"
	v4 := "(and (>= (- e p) 4) " + cont(b2) + " " + cont(b3) + " (or (and (= " + b0 + " 240) (<= 144 " + b1 + ") (<= " + b1 + " 191)) (and (<= 241 " + b0 + ") (<= " + b0 + " 243) " + cont(b1) + ") (and (= " + b0 + " 244) (<= 128 " + b1 + ") (<= " + b1 + " 143))))"
	args := "((c (Array Int Int)) (p Int) (e Int))"
	V.addPrelude("utf8",
		"(define-fun g_u8v2 "+args+" Bool "+v2+")",
		"(define-fun g_u8v3 "+args+" Bool "+v3+")",
		"(define-fun g_u8v4 "+args+" Bool "+v4+")",
		"(define-fun g_utf8_width "+args+" Int (ite (>= p e) 0 (ite (< "+b0+" 128) 1 (ite (g_u8v2 c p e) 2 (ite (g_u8v3 c p e) 3 (ite (g_u8v4 c p e) 4 1))))))",
		"(define-fun g_utf8_rune "+args+" Int (ite (>= p e) 65533 (ite (< "+b0+" 128) "+b0+" (ite (g_u8v2 c p e) (+ (* (- "+b0+" 192) 64) (- "+b1+" 128)) (ite (g_u8v3 c p e) (+ (* (- "+b0+" 224) 4096) (* (- "+b1+" 128) 64) (- "+b2+" 128)) (ite (g_u8v4 c p e) (+ (* (- "+b0+" 240) 262144) (* (- "+b1+" 128) 4096) (* (- "+b2+" 128) 64) (- "+b3+" 128)) 65533))))))",
	)
}

// decodeRune models utf8.DecodeRuneInString(s[i:]) exactly (definitions in the prelude) and adds
// the derived facts the proofs use most, so that the solver need not unfold the definition for them.
func (st *State) decodeRune(s Val, i string) (r, w string) {
	fc := st.fc
	fc.V.utf8Prelude()
	p := st.define("p", "Int", sAdd(s.soff(), i))
	e := st.define("e", "Int", sAdd(s.soff(), s.length()))
	c := s.content()
	return st.decodeAt(c, p, e)
}

func (st *State) decodeAt(c, p, e string) (r, w string) {
	fc := st.fc
	fc.V.utf8Prelude()
	fc.noteAssumption("unicode/utf8 decoding is defined exactly as in the Go standard library (transcribed in the prelude; compared with the real stdlib by the setup self-check)")
	r = st.define("rune", "Int", sApp("g_utf8_rune", c, p, e))
	w = st.define("width", "Int", sApp("g_utf8_width", c, p, e))
	for k := 0; k < 4; k++ {
		b := sSel(c, sAdd(p, sInt(int64(k))))
		st.assume(sAnd(sCmp("<=", "0", b), sCmp("<=", b, "255")))
	}
	b0 := sSel(c, p)
	nonEmpty := sCmp("<", p, e)
	st.assume(sImp(nonEmpty, sAnd(sCmp("<=", "1", w), sCmp("<=", w, "4"), sCmp("<=", sAdd(p, w), e))))
	st.assume(sAnd(sCmp("<=", "0", r), sCmp("<=", r, "1114111"), sOr(sCmp("<", r, "55296"), sCmp(">", r, "57343"))))
	st.assume(sImp(sAnd(nonEmpty, sCmp("<", b0, "128")), sAnd(sEq(w, "1"), sEq(r, b0))))
	st.assume(sImp(sAnd(nonEmpty, sCmp(">=", b0, "128")), sCmp(">=", r, "128")))
	rl := sIte(sCmp("<", r, "128"), "1", sIte(sCmp("<", r, "2048"), "2", sIte(sCmp("<", r, "65536"), "3", "4")))
	st.assume(sImp(nonEmpty, sOr(sEq(w, rl), sAnd(sEq(r, "65533"), sEq(w, "1")))))
	return r, w
}

var symRe = regexp.MustCompile(`g_[A-Za-z0-9_.!]+_\d+`)

// expandDefs replaces defined constants by their definitions (bounded depth).
func (fc *FuncCtx) expandDefs(t string, depth int) string {
	if depth > 6 {
		return t
	}
	changed := false
	out := symRe.ReplaceAllStringFunc(t, func(m string) string {
		if d, ok := fc.defs[m]; ok {
			changed = true
			return d
		}
		return m
	})
	if changed {
		return fc.expandDefs(out, depth+1)
	}
	return out
}

// mentionsHeaps: does the term read a heap that the loop modifies?
func mentionsHeaps(t string, cur map[string]string, modified map[string]bool) bool {
	for name := range modified {
		if h, ok := cur[name]; ok && strings.Contains(t, h) {
			return true
		}
		if strings.Contains(t, "H_"+sanitize(name)+"_0") {
			return true
		}
	}
	return false
}
