package main

// Spec expression language: Go expression syntax plus
//   ==>                         implication (lowest precedence, right assoc)
//   forall k in lo..hi: P       bounded quantifier (also: forall k: P, forall a, b in ..)
//   exists k in lo..hi: P
//   old(e)  result  result1..n  ite(c,a,b)  let x = e: body
// Parsed into SNode trees by a small Pratt parser on top of go/scanner.

import (
	"fmt"
	"go/scanner"
	"go/token"
	"strings"
)

type SNode struct {
	Op   string   // "num","id","str","char","call","index","slice","sel","un","bin","forall","exists","let"
	Text string   // literal text, identifier, operator, field name, callee name
	Args []*SNode // operands
	Vars []string // bound variables for quantifiers/let
	Pos  int
}

func (n *SNode) String() string {
	if n == nil {
		return "<nil>"
	}
	switch n.Op {
	case "num", "id", "str", "char":
		return n.Text
	case "call":
		var a []string
		for _, x := range n.Args {
			a = append(a, x.String())
		}
		return n.Text + "(" + strings.Join(a, ", ") + ")"
	case "index":
		return n.Args[0].String() + "[" + n.Args[1].String() + "]"
	case "slice":
		lo, hi := "", ""
		if n.Args[1] != nil {
			lo = n.Args[1].String()
		}
		if n.Args[2] != nil {
			hi = n.Args[2].String()
		}
		return n.Args[0].String() + "[" + lo + ":" + hi + "]"
	case "sel":
		return n.Args[0].String() + "." + n.Text
	case "un":
		return n.Text + n.Args[0].String()
	case "bin":
		return "(" + n.Args[0].String() + " " + n.Text + " " + n.Args[1].String() + ")"
	case "forall", "exists":
		s := n.Op + " " + strings.Join(n.Vars, ", ")
		if n.Args[0] != nil {
			s += " in " + n.Args[0].String() + ".." + n.Args[1].String()
		}
		return "(" + s + ": " + n.Args[2].String() + ")"
	case "let":
		return "(let " + n.Vars[0] + " = " + n.Args[0].String() + ": " + n.Args[1].String() + ")"
	}
	return "?" + n.Op
}

type stok struct {
	tok token.Token
	lit string
	pos int
}

type sparser struct {
	toks []stok
	i    int
	src  string
}

func lexSpec(src string) ([]stok, error) {
	// go/scanner does not know '==>' '..' and '?'; pre-split on those.
	var out []stok
	fset := token.NewFileSet()
	f := fset.AddFile("", fset.Base(), len(src))
	var s scanner.Scanner
	var errs []string
	s.Init(f, []byte(src), func(pos token.Position, msg string) { errs = append(errs, msg) }, 0)
	for {
		p, tok, lit := s.Scan()
		if tok == token.EOF {
			break
		}
		if tok == token.SEMICOLON && lit == "\n" {
			continue
		}
		out = append(out, stok{tok, lit, int(p) - f.Base()})
	}
	if len(errs) > 0 {
		return nil, fmt.Errorf("lex %q: %s", src, strings.Join(errs, "; "))
	}
	// merge '==' '>' into '==>' when adjacent, and '.' '.' into '..'
	var m []stok
	for i := 0; i < len(out); i++ {
		t := out[i]
		if t.tok == token.EQL && i+1 < len(out) && out[i+1].tok == token.GTR && out[i+1].pos == t.pos+2 {
			m = append(m, stok{token.ILLEGAL, "==>", t.pos})
			i++
			continue
		}
		if t.tok == token.PERIOD && i+1 < len(out) && out[i+1].tok == token.PERIOD && out[i+1].pos == t.pos+1 {
			m = append(m, stok{token.ILLEGAL, "..", t.pos})
			i++
			continue
		}
		m = append(m, t)
	}
	return m, nil
}

func parseSpec(src string) (n *SNode, err error) {
	// "0..n" lexes as float "0." followed by ".n"; protect ranges by spacing.
	src = protectRanges(src)
	toks, err := lexSpec(src)
	if err != nil {
		return nil, err
	}
	p := &sparser{toks: toks, src: src}
	defer func() {
		if r := recover(); r != nil {
			if e, ok := r.(specErr); ok {
				err = fmt.Errorf("spec %q: %s", src, string(e))
				return
			}
			panic(r)
		}
	}()
	n = p.expr()
	if p.i < len(p.toks) {
		p.fail("unexpected token %q", p.toks[p.i].text())
	}
	return n, nil
}

func protectRanges(s string) string {
	var b strings.Builder
	for i := 0; i < len(s); i++ {
		if s[i] == '.' && i+1 < len(s) && s[i+1] == '.' {
			b.WriteString(" .. ")
			i++
			continue
		}
		b.WriteByte(s[i])
	}
	return b.String()
}

type specErr string

func (t stok) text() string {
	if t.lit != "" {
		return t.lit
	}
	return t.tok.String()
}

func (p *sparser) fail(f string, a ...interface{}) {
	panic(specErr(fmt.Sprintf(f, a...)))
}
func (p *sparser) peek() stok {
	if p.i < len(p.toks) {
		return p.toks[p.i]
	}
	return stok{token.EOF, "", len(p.src)}
}
func (p *sparser) next() stok { t := p.peek(); p.i++; return t }
func (p *sparser) isLit(s string) bool {
	t := p.peek()
	return t.tok != token.EOF && t.text() == s && t.tok != token.STRING && t.tok != token.CHAR
}
func (p *sparser) accept(s string) bool {
	if p.isLit(s) {
		p.i++
		return true
	}
	return false
}
func (p *sparser) expect(s string) {
	if !p.accept(s) {
		p.fail("expected %q, got %q", s, p.peek().text())
	}
}

func (p *sparser) expr() *SNode {
	t := p.peek()
	if t.tok == token.IDENT && t.lit == "seqdef" {
		// seqdef k: e   -- the sequence whose k-th element is e (a definition: total, sound by construction)
		p.next()
		v := p.next()
		if v.tok != token.IDENT {
			p.fail("seqdef: expected bound variable")
		}
		p.expect(":")
		body := p.expr()
		return &SNode{Op: "seqdef", Vars: []string{v.lit}, Args: []*SNode{body}, Pos: t.pos}
	}
	if t.tok == token.IDENT && t.lit == "witness" {
		// witness p: k in lo..hi: cond   -- a sequence W with: if some k in lo..hi satisfies cond(p,k) then W[p] is such a k
		p.next()
		pv := p.next()
		p.expect(":")
		kv := p.next()
		if pv.tok != token.IDENT || kv.tok != token.IDENT {
			p.fail("witness: expected bound variables")
		}
		if in := p.next(); in.tok != token.IDENT || in.lit != "in" {
			p.fail("witness: expected 'in'")
		}
		lo := p.binary(3)
		p.expect("..")
		hi := p.binary(3)
		p.expect(":")
		body := p.expr()
		return &SNode{Op: "witness", Vars: []string{pv.lit, kv.lit}, Args: []*SNode{lo, hi, body}, Pos: t.pos}
	}
	if t.tok == token.IDENT && (t.lit == "forall" || t.lit == "exists") {
		p.next()
		n := &SNode{Op: t.lit, Pos: t.pos}
		for {
			v := p.next()
			if v.tok != token.IDENT {
				p.fail("expected bound variable")
			}
			n.Vars = append(n.Vars, v.lit)
			if !p.accept(",") {
				break
			}
		}
		var lo, hi *SNode
		if p.peek().tok == token.IDENT && p.peek().lit == "in" {
			p.next()
			if t2 := p.peek(); t2.tok == token.IDENT && (t2.lit == "refs" || t2.lit == "oldrefs") {
				// forall e in refs(T): e ranges over all references to struct type T
				lo = p.postfix()
			} else {
				lo = p.binary(3) // above comparison so that ".." terminates it
				p.expect("..")
				hi = p.binary(3)
			}
		}
		p.expect(":")
		body := p.expr()
		n.Args = []*SNode{lo, hi, body}
		return n
	}
	if t.tok == token.IDENT && t.lit == "let" {
		p.next()
		v := p.next()
		p.expect("=")
		e := p.implication()
		p.expect(":")
		body := p.expr()
		return &SNode{Op: "let", Vars: []string{v.lit}, Args: []*SNode{e, body}, Pos: t.pos}
	}
	return p.implication()
}

func (p *sparser) implication() *SNode {
	l := p.binary(0)
	if p.isLit("==>") {
		t := p.next()
		r := p.exprNoQuantTail()
		return &SNode{Op: "bin", Text: "==>", Args: []*SNode{l, r}, Pos: t.pos}
	}
	return l
}

// right-hand side of ==> may itself be a quantifier or implication
func (p *sparser) exprNoQuantTail() *SNode { return p.expr() }

var binPrec = map[string]int{
	"||": 1, "&&": 2,
	"==": 3, "!=": 3, "<": 3, "<=": 3, ">": 3, ">=": 3,
	"+": 4, "-": 4, "|": 4, "^": 4,
	"*": 5, "/": 5, "%": 5, "<<": 5, ">>": 5, "&": 5, "&^": 5,
}

func (p *sparser) binary(minPrec int) *SNode {
	l := p.unary()
	for {
		t := p.peek()
		if t.tok == token.EOF || t.tok == token.STRING || t.tok == token.CHAR {
			return l
		}
		op := t.text()
		pr, ok := binPrec[op]
		if !ok || pr <= minPrec {
			return l
		}
		p.next()
		r := p.binary(pr)
		if pr == 3 && l.Op == "bin" && binPrec[l.Text] == 3 && !l.paren() {
			// chained comparison a <= b < c  ==> (a<=b) && (b<c)
			mid := l.Args[1]
			l = &SNode{Op: "bin", Text: "&&", Args: []*SNode{l, {Op: "bin", Text: op, Args: []*SNode{mid, r}, Pos: t.pos}}, Pos: t.pos}
			// keep allowing chains: mark so that further chain uses r
			l.Vars = []string{"chain"}
			continue
		}
		if pr == 3 && l.Op == "bin" && l.Text == "&&" && len(l.Vars) == 1 && l.Vars[0] == "chain" {
			last := l.Args[1]
			l = &SNode{Op: "bin", Text: "&&", Args: []*SNode{l, {Op: "bin", Text: op, Args: []*SNode{last.Args[1], r}, Pos: t.pos}}, Pos: t.pos, Vars: []string{"chain"}}
			continue
		}
		l = &SNode{Op: "bin", Text: op, Args: []*SNode{l, r}, Pos: t.pos}
	}
}

func (n *SNode) paren() bool { return len(n.Vars) == 1 && n.Vars[0] == "paren" }

func (p *sparser) unary() *SNode {
	t := p.peek()
	if t.tok != token.STRING && t.tok != token.CHAR {
		switch t.text() {
		case "!", "-", "^":
			p.next()
			x := p.unary()
			return &SNode{Op: "un", Text: t.text(), Args: []*SNode{x}, Pos: t.pos}
		case "+":
			p.next()
			return p.unary()
		}
	}
	return p.postfix()
}

func (p *sparser) postfix() *SNode {
	x := p.primary()
	for {
		switch {
		case p.isLit("."):
			p.next()
			f := p.next()
			if f.tok != token.IDENT {
				p.fail("expected field name after '.'")
			}
			x = &SNode{Op: "sel", Text: f.lit, Args: []*SNode{x}, Pos: f.pos}
		case p.isLit("["):
			t := p.next()
			var lo, hi *SNode
			if p.isLit(":") {
				p.next()
				if !p.isLit("]") {
					hi = p.expr()
				}
				p.expect("]")
				x = &SNode{Op: "slice", Args: []*SNode{x, nil, hi}, Pos: t.pos}
				continue
			}
			lo = p.expr()
			if p.accept(":") {
				if !p.isLit("]") {
					hi = p.expr()
				}
				p.expect("]")
				x = &SNode{Op: "slice", Args: []*SNode{x, lo, hi}, Pos: t.pos}
				continue
			}
			p.expect("]")
			x = &SNode{Op: "index", Args: []*SNode{x, lo}, Pos: t.pos}
		case p.isLit("("):
			t := p.next()
			var args []*SNode
			for !p.isLit(")") {
				args = append(args, p.expr())
				if !p.accept(",") {
					break
				}
			}
			p.expect(")")
			name := ""
			switch x.Op {
			case "id":
				name = x.Text
				x = &SNode{Op: "call", Text: name, Args: args, Pos: t.pos}
			case "sel":
				// pkg.Func(...) or recv.Method(...): keep the selector as first arg marker
				x = &SNode{Op: "call", Text: x.String(), Args: args, Pos: t.pos}
			default:
				p.fail("cannot call %s", x.String())
			}
		default:
			return x
		}
	}
}

func (p *sparser) primary() *SNode {
	t := p.next()
	switch t.tok {
	case token.INT:
		return &SNode{Op: "num", Text: t.lit, Pos: t.pos}
	case token.CHAR:
		return &SNode{Op: "char", Text: t.lit, Pos: t.pos}
	case token.STRING:
		return &SNode{Op: "str", Text: t.lit, Pos: t.pos}
	case token.IDENT:
		if t.lit == "forall" || t.lit == "exists" || t.lit == "let" {
			p.i--
			return p.expr()
		}
		return &SNode{Op: "id", Text: t.lit, Pos: t.pos}
	case token.LPAREN:
		x := p.expr()
		p.expect(")")
		if x.Op == "bin" {
			c := *x
			c.Vars = []string{"paren"}
			return &c
		}
		return x
	case token.MUL:
		// *p dereference: in specs pointers are transparent for field access; *sp means the pointee
		x := p.unary()
		return &SNode{Op: "un", Text: "*", Args: []*SNode{x}, Pos: t.pos}
	case token.AND:
		x := p.unary()
		return &SNode{Op: "un", Text: "&", Args: []*SNode{x}, Pos: t.pos}
	}
	p.fail("unexpected token %q", t.text())
	return nil
}
