package main

import (
	"fmt"
	"go/ast"
	"go/token"
	"go/types"
	"sort"
	"strings"
)

type flist struct {
	term string
	prev *flist
	n    int
}

func (l *flist) push(t string) *flist {
	n := 1
	if l != nil {
		n = l.n + 1
	}
	return &flist{t, l, n}
}
func (l *flist) slice() []string {
	if l == nil {
		return nil
	}
	out := make([]string, l.n)
	for p := l; p != nil; p = p.prev {
		out[p.n-1] = p.term
	}
	return out
}

// Obligation is one verification condition.
type Obligation struct {
	Name     string
	Kind     string
	Func     string
	Pos      string
	Decls    []string
	Facts    []string
	Goal     string
	Detail   string
	Prop     []string
	Expect   string // "unsat" (normal) or "sat" (vacuity cover)
	Inputs   []InputTerm
	HasQuant bool
	fc       *FuncCtx
	// results
	Status string // proved | failed | unknown | timeout
	Solver string
	Time   float64
	Output string
	Model  map[string]string
}

type InputTerm struct {
	Name string
	Term string
	Kind string // int bool len elem
}

// FuncCtx is shared by all paths of one function verification.
type FuncCtx struct {
	V        *Verifier
	Pkg      *PkgInfo
	Name     string // pkg.Recv.Func
	Decl     *ast.FuncDecl
	Contract *FuncContract
	decls    []string
	declared map[string]bool
	counter  int
	obls     []*Obligation
	oblCount map[string]int
	loopOrd  map[ast.Stmt]int
	callOrd  map[*ast.CallExpr]int
	entry    *State
	results  []*types.Var
	sig      *types.Signature
	recv     *types.Var
	paths    int
	inputs   []InputTerm
	assumptions map[string]bool
	inlineDepth int
	heapSorts map[string]string
	rec       *recorder
	suppress  int
	freshRefs map[string]bool
	weakFrames map[string]bool
	inlined   map[string]bool
	callees   map[string]bool
	entrySnap *Snapshot
	endNames  map[string]Val // result names while the 'end' anchor runs
	promote   map[types.Object]bool // local array variables that are sliced: they live in the heap (see promotedVar)
	bodyPos   token.Pos
	curContract *FuncContract
	anchorsHit  map[string]bool
	loopDepth int
	permitBareRange bool
	ceUnroll  int
	rgClosureDone bool
	ceDepth   int // nesting depth of loops being unrolled in counterexample mode
	ceStates  int // loop states explored in counterexample mode (budget)
	defs      map[string]string
	views     map[string]string
	topCall   *ast.CallExpr
	viewDefs  [][2]string
	inputArrs []string
}

type deferred struct {
	call *ast.CallExpr
}

type State struct {
	fc     *FuncCtx
	vars   map[types.Object]Val
	ghost  map[string]Val
	heap   map[string]string
	facts  *flist
	guard  []string
	alloc  string
	defers []deferred
	locks  map[string]int // lock expression text -> 0 none, 1 read, 2 write
	oldSt  *State         // state at function entry (for old())
	dead   bool
	curPkg *PkgInfo
	tsub   map[string]types.Type
	havocked map[string]bool
	rgLate bool      // rely-guarantee mode: at least one interference point passed
	rgInAtomic bool
	rgPre  *Snapshot // state right before the pending atomic step (guarantee is checked against it)
}

func (st *State) clone() *State {
	n := *st
	n.vars = make(map[types.Object]Val, len(st.vars))
	for k, v := range st.vars {
		n.vars[k] = v
	}
	n.ghost = make(map[string]Val, len(st.ghost))
	for k, v := range st.ghost {
		n.ghost[k] = v
	}
	n.heap = make(map[string]string, len(st.heap))
	for k, v := range st.heap {
		n.heap[k] = v
	}
	n.locks = make(map[string]int, len(st.locks))
	for k, v := range st.locks {
		n.locks[k] = v
	}
	n.guard = append([]string(nil), st.guard...)
	n.defers = append([]deferred(nil), st.defers...)
	return &n
}

func (fc *FuncCtx) declare(name, sort string) {
	if fc.declared[name] {
		return
	}
	fc.declared[name] = true
	fc.decls = append(fc.decls, fmt.Sprintf("(declare-fun %s () %s)", name, sort))
}

func (fc *FuncCtx) declareFun(name string, args []string, res string) {
	if fc.declared[name] {
		return
	}
	fc.declared[name] = true
	fc.decls = append(fc.decls, fmt.Sprintf("(declare-fun %s (%s) %s)", name, strings.Join(args, " "), res))
}

func (fc *FuncCtx) fresh(prefix, sort string) string {
	fc.counter++
	name := fmt.Sprintf("g_%s_%d", sanitize(prefix), fc.counter)
	fc.declare(name, sort)
	return name
}

// addFact appends an unconditional fact. (A method on *State so that the argument — whose evaluation may itself add
// facts, e.g. heap typing axioms — is evaluated before the list is extended; `st.facts = st.facts.push(f(..))` would
// evaluate the receiver first and drop those facts.)
func (st *State) addFact(t string) {
	st.facts = st.facts.push(t)
}

func (st *State) assume(t string) {
	if t == "true" || t == "" {
		return
	}
	if len(st.guard) > 0 {
		t = sImp(sAnd(st.guard...), t)
	}
	st.addFact(t)
}

// define introduces a named constant equal to term (keeps VCs readable and small).
func (st *State) define(prefix, sort, term string) string {
	if _, ok := isNum(term); ok {
		return term
	}
	if !strings.HasPrefix(term, "(") {
		return term
	}
	c := st.fc.fresh(prefix, sort)
	f := sEq(c, term)
	defFacts[f] = true
	if st.fc.defs == nil {
		st.fc.defs = map[string]string{}
	}
	st.fc.defs[c] = term
	st.addFact(f) // definitions are unconditional
	return c
}

func (st *State) pushGuard(g string) { st.guard = append(st.guard, g) }
func (st *State) popGuard()          { st.guard = st.guard[:len(st.guard)-1] }

// ---- obligations ----

func (st *State) oblige(kind, detail, goal string, pos token.Pos) {
	fc := st.fc
	if fc.suppress > 0 {
		return
	}
	// a conjunctive goal is split into one obligation per conjunct: smaller queries, and the failing clause is named
	if strings.HasPrefix(goal, "(and ") {
		if parts := topLevelArgs(goal); len(parts) > 1 {
			for i, p := range parts {
				st.oblige(kind, fmt.Sprintf("%s.c%d", detail, i+1), p, pos)
			}
			return
		}
	}
	if goal == "true" {
		// still count it: trivially discharged by construction
		fc.V.trivial++
		return
	}
	base := fc.Name + "/" + kind
	if detail != "" {
		base += "/" + detail
	}
	facts := st.facts.slice()
	if len(st.guard) > 0 {
		facts = append(facts, st.guard...)
	}
	ob := &Obligation{Name: base, Kind: kind, Func: fc.Name, Decls: append([]string(nil), fc.decls...), Facts: facts, Goal: goal, Detail: detail, Expect: "unsat", Inputs: fc.inputs, fc: fc}
	if pos.IsValid() {
		p := fc.Pkg.Fset.Position(pos)
		ob.Pos = fmt.Sprintf("%s:%d", p.Filename, p.Line)
	}
	fc.obls = append(fc.obls, ob)
}

// ---- heaps ----

func (st *State) heapGet(name, sort string) string {
	if t, ok := st.heap[name]; ok {
		return t
	}
	if st.rgLate {
		// rely-guarantee mode: a heap first touched after interference points is unconstrained (not its entry value)
		return st.heapHavoc(name, sort)
	}
	c := "H_" + sanitize(name) + "_0"
	st.fc.declare(c, sort)
	st.fc.heapSorts[name] = sort
	st.heap[name] = c
	st.heapTypingAt(name, c, st.fc.entryAlloc())
	return c
}

var basicIntRanges = map[string][2]string{
	"uint8": {"0", "255"}, "uint16": {"0", "65535"}, "uint32": {"0", "4294967295"}, "uint64": {"0", "18446744073709551615"}, "uint": {"0", "18446744073709551615"},
	"int8": {"(- 128)", "127"}, "int16": {"(- 32768)", "32767"}, "int32": {"(- 2147483648)", "2147483647"}, "int64": {"(- 9223372036854775808)", "9223372036854775807"}, "int": {"(- 9223372036854775808)", "9223372036854775807"},
	"uintptr": {"0", "18446744073709551615"},
}

// heapTyping: every cell of an integer element heap holds a value of its Go type (needed inside quantified specs,
// where reads are not individually typed).
func (st *State) heapTyping(name, h string) {
	st.heapTypingAt(name, h, st.alloc)
}

// heapTypingAt: alloc is the allocation counter of the state the heap value h belongs to (the entry counter for the
// initial heap constants, which are created lazily but describe the state at function entry)
func (st *State) heapTypingAt(name, h, alloc string) {
	if strings.HasPrefix(name, "M!") {
		// the nil map (reference 0) has no entries and size 0 in every state; sizes are never negative
		if strings.HasSuffix(name, "!dom") {
			st.addFact(fmt.Sprintf("(= (select %s 0) ((as const (Array Int Bool)) false))", h))
		} else if strings.HasSuffix(name, "!size") {
			st.addFact(fmt.Sprintf("(= (select %s 0) 0)", h))
			st.addFact(fmt.Sprintf("(forall ((g_a Int)) (! (and (<= 0 (select %s g_a)) (< (select %s g_a) %s)) :pattern ((select %s g_a))))", h, h, sNum(pow2(maxLenBits)), h))
		}
		return
	}
	if heapHoldsRefs[name] {
		// every reference stored in the heap is nil or allocated (no dangling references in Go)
		lim := alloc
		if k := heapRefBlock[name]; k > 0 {
			lim = sSub(alloc, sInt(int64(k)))
		}
		if strings.HasPrefix(name, "E!") {
			st.addFact(fmt.Sprintf("(forall ((g_a Int) (g_i Int)) (! (and (<= 0 (select (select %s g_a) g_i)) (< (select (select %s g_a) g_i) %s)) :pattern ((select (select %s g_a) g_i))))", h, h, lim, h))
		} else if strings.HasPrefix(name, "P!") {
			st.addFact(fmt.Sprintf("(forall ((g_a Int)) (! (and (<= 0 (select %s g_a)) (< (select %s g_a) %s)) :pattern ((select %s g_a))))", h, h, lim, h))
		}
		return
	}
	if !strings.HasPrefix(name, "E!") || !strings.HasSuffix(name, "!") {
		return
	}
	key := strings.TrimSuffix(strings.TrimPrefix(name, "E!"), "!")
	r, ok := basicIntRanges[key]
	if !ok {
		return
	}
	st.addFact(fmt.Sprintf("(forall ((g_a Int) (g_i Int)) (! (and (<= %s (select (select %s g_a) g_i)) (<= (select (select %s g_a) g_i) %s)) :pattern ((select (select %s g_a) g_i))))", r[0], h, h, r[1], h))
}

func (st *State) noteUnknownWrite(name string) {
	if r := st.fc.rec; r != nil {
		r.heaps[name] = true
		r.unknown[name] = true
	}
}

func (st *State) noteWrite(name, idTerm string) {
	if r := st.fc.rec; r != nil {
		r.heaps[name] = true
		r.noted[name] = true
		delete(r.unknown, name)
		r.writes[name] = append(r.writes[name], idTerm)
	}
}

// heapSet installs a new version of a heap; id is the array id / reference whose row changed ("" = unknown).
func (st *State) heapSet(name, sort, term string, id ...string) {
	st.fc.heapSorts[name] = sort
	if r := st.fc.rec; r != nil {
		r.heaps[name] = true
		if len(id) == 0 {
			if !r.noted[name] {
				r.unknown[name] = true
			}
		} else {
			for _, x := range id {
				r.writes[name] = append(r.writes[name], x)
			}
		}
	}
	st.heap[name] = st.define("H_"+name, sort, term)
}

func (st *State) heapHavoc(name, sort string) string {
	if r := st.fc.rec; r != nil {
		r.heaps[name] = true
	}
	c := st.fc.fresh("H_"+name, sort)
	st.fc.heapSorts[name] = sort
	st.heap[name] = c
	st.heapTyping(name, c)
	return c
}

// heapHoldsRefs: heaps whose cells are references (pointers / maps): every stored reference is allocated.
var heapHoldsRefs = map[string]bool{}

// heapRefBlock: for reference-holding heaps, the size of the block reserved behind each stored reference
var heapRefBlock = map[string]int{}

func elemHeapName(elem types.Type, c Comp) string {
	n := "E!" + typeKey(elem) + "!" + c.Path
	if c.T != nil && (classify(c.T) == tcPtr || classify(c.T) == tcMap) {
		heapHoldsRefs[n] = true
		heapRefBlock[n] = refBlock(c.T)
	}
	if c.Leaf == "arr" {
		heapHoldsRefs[n] = true // backing-array ids of stored slices are allocated ids
	}
	return n
}
func ptrHeapName(pointee types.Type, c Comp) string {
	n := "P!" + typeKey(pointee) + "!" + c.Path
	if c.T != nil && (classify(c.T) == tcPtr || classify(c.T) == tcMap) {
		heapHoldsRefs[n] = true
		heapRefBlock[n] = refBlock(c.T)
	}
	if c.Leaf == "arr" {
		heapHoldsRefs[n] = true
	}
	return n
}
func elemSort(c Comp) string                     { return "(Array Int (Array Int " + c.Sort + "))" }
func ptrSort(c Comp) string                      { return "(Array Int " + c.Sort + ")" }

// typing facts for a freshly read / havocked value
func (st *State) typeFacts(v Val) []string {
	var out []string
	switch v.K {
	case KInt:
		switch classify(v.T) {
		case tcInt:
			if f := inRange(v.S, v.T); f != "true" {
				out = append(out, f)
			}
		case tcPtr, tcMap:
			out = append(out, sCmp("<=", "0", v.S), sCmp("<", v.S, st.alloc))
			if k := refBlock(v.T); k > 0 {
				out = append(out, sCmp("<", sAdd(v.S, sInt(int64(k))), st.alloc))
			}
		}
	case KSlice:
		out = append(out, wfSlice(v, st.alloc)...)
	case KString:
		out = append(out, sCmp("<=", "0", v.length()), sCmp("<", v.length(), sNum(pow2(maxLenBits))), sCmp("<=", "0", v.soff()), sCmp("<", v.soff(), sNum(pow2(maxLenBits))))
	case KStruct, KTuple:
		for _, s := range v.Sub {
			out = append(out, st.typeFacts(s)...)
		}
	}
	return out
}

func wfSlice(v Val, alloc string) []string {
	max := sNum(pow2(maxLenBits))
	return []string{
		sCmp("<=", "0", v.arr()), sCmp("<", v.arr(), alloc),
		sCmp("<=", "0", v.off()), sCmp("<=", "0", v.length()), sCmp("<=", v.length(), v.capa()),
		sCmp("<", sAdd(v.off(), v.capa()), max),
		sImp(sEq(v.arr(), "0"), sAnd(sEq(v.capa(), "0"), sEq(v.off(), "0"))),
	}
}

func (st *State) assumeTyped(v Val) {
	for _, f := range st.typeFacts(v) {
		st.assume(f)
	}
}

// freshVal creates an unconstrained symbolic value of Go type t (with typing facts).
func (st *State) freshVal(prefix string, t types.Type) Val {
	if classify(t) == tcFunc {
		sig := t.Underlying().(*types.Signature)
		// S: the integer token of the function value (what is stored when the value is assigned to a field)
		tok := st.fc.fresh(prefix+"_fn", "Int")
		st.assume(sCmp("<=", "0", tok))
		return Val{K: KFunc, T: t, Fn: st.fc.funcSym(prefix, sig), S: tok}
	}
	comps := flatComps(t)
	terms := make([]string, len(comps))
	for i, c := range comps {
		if c.Leaf == "soff" {
			// a fresh symbolic string (content, off, len) is w.l.o.g. normalised to offset 0
			terms[i] = "0"
			continue
		}
		terms[i] = st.fc.fresh(prefix+c.Path, c.Sort)
	}
	v := unflatten(t, terms)
	st.assumeTyped(v)
	return v
}

func (fc *FuncCtx) funcSym(prefix string, sig *types.Signature) *FuncVal {
	fc.counter++
	name := fmt.Sprintf("g_fn_%s_%d", sanitize(prefix), fc.counter)
	return &FuncVal{Sym: name, Sig: sig}
}

// zeroVal is the Go zero value of t.
func (st *State) zeroVal(t types.Type) Val {
	switch classify(t) {
	case tcBool:
		return Val{K: KBool, S: "false", T: t}
	case tcString, tcTParamSeq:
		return mkString(t, "((as const (Array Int Int)) 0)", "0", "0")
	case tcSlice:
		return mkSlice(t, "0", "0", "0", "0")
	case tcStruct:
		s := t.Underlying().(*types.Struct)
		v := Val{K: KStruct, T: t}
		for i := 0; i < s.NumFields(); i++ {
			if isInterior(s.Field(i).Type()) {
				v.Sub = append(v.Sub, Val{K: KUnit, T: s.Field(i).Type()})
				continue
			}
			v.Sub = append(v.Sub, st.zeroVal(s.Field(i).Type()))
		}
		return v
	case tcArray:
		at := t.Underlying().(*types.Array)
		v := Val{K: KArray, T: t}
		z := flatten(st.zeroVal(at.Elem()))
		for i, c := range flatComps(at.Elem()) {
			v.Sub = append(v.Sub, vRaw("((as const (Array Int "+c.Sort+")) "+z[i]+")", "(Array Int "+c.Sort+")"))
		}
		return v
	case tcTParam:
		// the zero value of a type parameter is one fixed opaque value
		name := "g_zero_" + typeKey(t)
		st.fc.declare(name, "Int")
		return Val{K: KInt, S: name, T: t}
	case tcFunc:
		return Val{K: KInt, S: "0", T: t}
	}
	return Val{K: KInt, S: "0", T: t}
}

// ---- slice element access ----

func sliceElemType(t types.Type) types.Type {
	switch u := t.Underlying().(type) {
	case *types.Slice:
		return u.Elem()
	case *types.Array:
		return u.Elem()
	case *types.Pointer:
		if a, ok := u.Elem().Underlying().(*types.Array); ok {
			return a.Elem()
		}
	case *types.Basic:
		return types.Typ[types.Uint8]
	}
	if tp, ok := t.(*types.TypeParam); ok && classifyTParam(tp) == tcTParamSeq {
		return types.Typ[types.Uint8]
	}
	panic(vcErr("no element type for " + t.String()))
}

// loadElem reads s[idx] (idx relative to the slice) from the given heap map.
func (st *State) loadElem(heap map[string]string, s Val, idx string) Val {
	et := sliceElemType(s.T)
	comps := flatComps(et)
	terms := make([]string, len(comps))
	abs := sAdd(s.off(), idx)
	for i, c := range comps {
		h := st.heapIn(heap, elemHeapName(et, c), elemSort(c))
		terms[i] = sSel(sSel(h, s.arr()), abs)
	}
	return unflatten(et, terms)
}

func (st *State) heapIn(heap map[string]string, name, sort string) string {
	if heap == nil {
		return st.heapGet(name, sort)
	}
	if t, ok := heap[name]; ok {
		return t
	}
	// not touched before the snapshot: the initial heap constant
	c := "H_" + sanitize(name) + "_0"
	st.fc.declare(c, sort)
	st.fc.heapSorts[name] = sort
	// register so that later reads through the live state agree
	if _, ok := st.heap[name]; !ok {
		st.heap[name] = c
		st.heapTypingAt(name, c, st.fc.entryAlloc())
	}
	return c
}

func (st *State) storeElem(s Val, idx string, v Val) {
	et := sliceElemType(s.T)
	comps := flatComps(et)
	terms := flatten(v)
	if len(terms) != len(comps) {
		panic(vcErr(fmt.Sprintf("storeElem: %d components for %s, want %d", len(terms), et, len(comps))))
	}
	abs := sAdd(s.off(), idx)
	for i, c := range comps {
		name := elemHeapName(et, c)
		h := st.heapGet(name, elemSort(c))
		st.noteWrite(name, s.arr())
		st.heapSet(name, elemSort(c), sStore(h, s.arr(), sStore(sSel(h, s.arr()), abs, terms[i])))
	}
}

// ---- pointer field access ----

func structOf(t types.Type) (*types.Struct, types.Type) {
	if p, ok := t.Underlying().(*types.Pointer); ok {
		t = p.Elem()
	}
	s, _ := t.Underlying().(*types.Struct)
	return s, t
}

// fieldComps returns the flat components of field f of struct type st (paths relative to the struct).
func fieldComps(structT types.Type, field string) (types.Type, []Comp, int) {
	s := structT.Underlying().(*types.Struct)
	off := 0
	for i := 0; i < s.NumFields(); i++ {
		f := s.Field(i)
		cs := flatComps(f.Type())
		if isInterior(f.Type()) {
			cs = nil
		}
		if f.Name() == field {
			out := make([]Comp, len(cs))
			for j, c := range cs {
				c.Path = "." + f.Name() + c.Path
				out[j] = c
			}
			return f.Type(), out, off
		}
		off += len(cs)
	}
	return nil, nil, -1
}

// ghostFieldHeap: the heap of a declared ghost field (integer-valued ghost state per object), or "".
func ghostFieldHeap(structT types.Type, field string) string {
	k := typeKey(structT)
	if ghostFieldReg[k+"."+field] != "" {
		return "P!" + k + "!.$" + field
	}
	return ""
}

func ghostFieldSort(structT types.Type, field string) string {
	if ghostFieldReg[typeKey(structT)+"."+field] == "seq" {
		return "(Array Int (Array Int Int))"
	}
	return "(Array Int Int)"
}

func (st *State) loadField(heap map[string]string, ref string, structT types.Type, field string) Val {
	ft, comps, _ := fieldComps(structT, field)
	if ft == nil {
		if gh := ghostFieldHeap(structT, field); gh != "" {
			srt := ghostFieldSort(structT, field)
			if srt != "(Array Int Int)" {
				return vRaw(sSel(st.heapIn(heap, gh, srt), ref), "(Array Int Int)")
			}
			return vInt(sSel(st.heapIn(heap, gh, srt), ref), nil)
		}
	}
	if ft == nil {
		panic(vcErr("no field " + field + " in " + structT.String()))
	}
	if k := interiorIndex(structT, field); k > 0 {
		// interior object: the field denotes the object at ref+k (see isInterior)
		return vInt(sAdd(ref, sInt(int64(k))), types.NewPointer(ft))
	}
	terms := make([]string, len(comps))
	for i, c := range comps {
		h := st.heapIn(heap, ptrHeapName(structT, c), ptrSort(c))
		terms[i] = sSel(h, ref)
	}
	return unflatten(ft, terms)
}

func (st *State) storeField(ref string, structT types.Type, field string, v Val) {
	_, comps, _ := fieldComps(structT, field)
	if interiorIndex(structT, field) > 0 {
		panic(vcErr("assignment to the interior object field " + field + " as a whole is not supported"))
	}
	terms := flatten(v)
	if len(terms) != len(comps) {
		panic(vcErr(fmt.Sprintf("storeField %s: %d components, want %d", field, len(terms), len(comps))))
	}
	for i, c := range comps {
		name := ptrHeapName(structT, c)
		h := st.heapGet(name, ptrSort(c))
		st.noteWrite(name, ref)
		st.heapSet(name, ptrSort(c), sStore(h, ref, terms[i]))
	}
}

// loadPointee reads *p for a heap reference p of pointee type t.
func (st *State) loadPointee(heap map[string]string, ref string, t types.Type) Val {
	comps := flatComps(t)
	terms := make([]string, len(comps))
	for i, c := range comps {
		h := st.heapIn(heap, ptrHeapName(t, c), ptrSort(c))
		terms[i] = sSel(h, ref)
	}
	return unflatten(t, terms)
}

func (st *State) storePointee(ref string, t types.Type, v Val) {
	comps := flatComps(t)
	terms := flatten(v)
	for i, c := range comps {
		name := ptrHeapName(t, c)
		h := st.heapGet(name, ptrSort(c))
		st.noteWrite(name, ref)
		st.heapSet(name, ptrSort(c), sStore(h, ref, terms[i]))
	}
}

// allocRef returns a fresh reference / array id.
func (st *State) allocRef() string {
	r := st.alloc
	if st.fc.freshRefs == nil {
		st.fc.freshRefs = map[string]bool{}
	}
	st.fc.freshRefs[r] = true
	if st.fc.rec != nil {
		st.fc.rec.alloc = true
	}
	st.alloc = st.define("alloc", "Int", sAdd(st.alloc, "1"))
	return r
}

// allocObject allocates an object of struct type t together with its interior objects (zero-initialised).
func (st *State) allocObject(t types.Type) string {
	ref := st.allocRef()
	// ghost fields of a new object start at 0
	prefix := typeKey(t) + "."
	var gfs []string
	for k := range ghostFieldReg {
		if strings.HasPrefix(k, prefix) {
			gfs = append(gfs, strings.TrimPrefix(k, prefix))
		}
	}
	sort.Strings(gfs)
	for _, f := range gfs {
		gh := "P!" + typeKey(t) + "!.$" + f
		srt := ghostFieldSort(t, f)
		zero := "0"
		if srt != "(Array Int Int)" {
			zero = "((as const (Array Int Int)) 0)"
		}
		h := st.heapGet(gh, srt)
		st.noteWrite(gh, ref)
		st.heapSet(gh, srt, sStore(h, ref, zero), ref)
	}
	if s, ok := t.Underlying().(*types.Struct); ok {
		for i := 0; i < s.NumFields(); i++ {
			if ft := s.Field(i).Type(); isInterior(ft) {
				r2 := st.allocRef()
				if interiorCount(ft) > 0 {
					panic(vcErr("nested interior objects are not supported"))
				}
				st.storePointee(r2, ft, st.zeroVal(ft))
			}
		}
	}
	return ref
}

// Local arrays that are sliced (salt[:], cred[:32]) are promoted to the heap: the variable is bound to a slice
// (fresh array id, offset 0, len = cap = N) marked "promoted"; indexing, slicing and element assignment go through the
// slice, reading the variable as a whole yields a snapshot of the row (Go's by-value semantics), assigning an array
// value to it overwrites the row.
func (st *State) promotedVar(e ast.Expr) (Val, bool) {
	id, ok := ast.Unparen(e).(*ast.Ident)
	if !ok {
		return Val{}, false
	}
	obj := st.info().ObjectOf(id)
	if v, ok := st.vars[obj]; ok && v.K == KSlice && v.Sort == "promoted" {
		v.Sort = ""
		return v, true
	}
	return Val{}, false
}

func (st *State) newPromotedArray(at *types.Array, init Val) Val {
	arr := st.allocRef()
	et := at.Elem()
	sl := mkSlice(types.NewSlice(et), arr, "0", sInt(at.Len()), sInt(at.Len()))
	sl.Sort = "promoted"
	st.writePromoted(sl, at, init)
	return sl
}

func (st *State) writePromoted(sl Val, at *types.Array, v Val) {
	if v.K != KArray {
		panic(vcErr("assignment of a non-array value to a sliced local array"))
	}
	et := at.Elem()
	for j, c := range flatComps(et) {
		name := elemHeapName(et, c)
		h := st.heapGet(name, elemSort(c))
		st.noteWrite(name, sl.arr())
		st.heapSet(name, elemSort(c), sStore(h, sl.arr(), v.Sub[j].S), sl.arr())
	}
}

func (st *State) snapshotPromoted(sl Val, at *types.Array) Val {
	et := at.Elem()
	v := Val{K: KArray, T: at}
	for _, c := range flatComps(et) {
		h := st.heapGet(elemHeapName(et, c), elemSort(c))
		v.Sub = append(v.Sub, vRaw(sSel(h, sl.arr()), "(Array Int "+c.Sort+")"))
	}
	return v
}

type vcErr string

func (e vcErr) Error() string { return string(e) }

func sortedKeys(m map[string]string) []string {
	var ks []string
	for k := range m {
		ks = append(ks, k)
	}
	sort.Strings(ks)
	return ks
}

// topLevelArgs splits "(op a b c)" into its argument s-expressions.
func topLevelArgs(t string) []string {
	if len(t) < 2 || t[0] != '(' || t[len(t)-1] != ')' {
		return nil
	}
	body := t[1 : len(t)-1]
	k := strings.IndexByte(body, ' ')
	if k < 0 {
		return nil
	}
	body = body[k+1:]
	var out []string
	depth, start := 0, -1
	for i := 0; i < len(body); i++ {
		c := body[i]
		switch {
		case c == '(':
			if depth == 0 && start < 0 {
				start = i
			}
			depth++
		case c == ')':
			depth--
			if depth == 0 {
				out = append(out, body[start:i+1])
				start = -1
			}
		case c == ' ' && depth == 0:
			if start >= 0 {
				out = append(out, body[start:i])
				start = -1
			}
		default:
			if depth == 0 && start < 0 {
				start = i
			}
		}
	}
	if start >= 0 {
		out = append(out, body[start:])
	}
	return out
}
