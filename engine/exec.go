package main

import (
	"fmt"
	"go/ast"
	"go/token"
	"go/types"
	"sort"
	"strings"
)

type okind int

const (
	oNormal okind = iota
	oBreak
	oContinue
	oReturn
	oPanic
)

type Outcome struct {
	st    *State
	kind  okind
	label string
	vals  []Val
}

const maxPaths = 6000

func normal(st *State) []Outcome { return []Outcome{{st: st, kind: oNormal}} }

func (st *State) execBlock(stmts []ast.Stmt) []Outcome {
	cur := []Outcome{{st: st, kind: oNormal}}
	for _, s := range stmts {
		var next []Outcome
		for _, o := range cur {
			if o.kind != oNormal {
				next = append(next, o)
				continue
			}
			if o.st.fc.inlineDepth == 0 {
				o.st.fc.topCall = topCall(s)
			}
			outs := o.st.exec(s)
			if o.st.fc.inlineDepth == 0 && o.st.fc.curContract != nil && (len(o.st.fc.curContract.Anchors) > 0 || o.st.fc.isRG()) {
				if call := topCall(s); call != nil {
					if ord, ok := o.st.fc.callOrd[call]; ok {
						for _, oo := range outs {
							if oo.kind == oNormal {
								oo.st.runAnchor(fmt.Sprintf("after-call%d", ord), s.End())
							}
						}
					}
				}
			}
			next = append(next, outs...)
		}
		cur = next
		live := 0
		for _, o := range cur {
			if o.kind == oNormal {
				live++
			}
		}
		if len(cur) > maxPaths {
			panic(vcErr(fmt.Sprintf("path explosion (%d paths) in %s", len(cur), st.fc.Name)))
		}
		if live == 0 {
			break
		}
	}
	return cur
}

// topCall returns the call expression a statement consists of (x := f(), f(), x = f()).
func topCall(s ast.Stmt) *ast.CallExpr {
	switch x := s.(type) {
	case *ast.ExprStmt:
		c, _ := x.X.(*ast.CallExpr)
		return c
	case *ast.AssignStmt:
		if len(x.Rhs) == 1 {
			c, _ := x.Rhs[0].(*ast.CallExpr)
			return c
		}
	}
	return nil
}

func (st *State) exec(s ast.Stmt) (outs []Outcome) {
	if c := st.fc.Contract; c != nil && c.Partial {
		// "partial" contracts: a statement outside the supported subset is allowed only where it is unreachable;
		// reaching it becomes an obligation (false under the path condition) and the path ends there
		switch s.(type) {
		case *ast.BlockStmt, *ast.IfStmt, *ast.ForStmt, *ast.RangeStmt, *ast.SwitchStmt, *ast.LabeledStmt:
		default:
			defer func() {
				if r := recover(); r != nil {
					e, ok := r.(vcErr)
					if !ok {
						panic(r)
					}
					goal := "false"
					if c.PartialWhen != nil {
						// reached only in the declared circumstances (a condition over the entry state); the path is then left unverified
						env := st.fc.newSpecEnv(st, nil, st.fc.entrySnap, st.fc.bodyPos, st.fc.Name+"/partial")
						goal = env.inOld().evalBool(c.PartialWhen)
					}
					st.oblige("unsupported", "unreachable("+string(e)+")", goal, s.Pos())
					st.fc.noteAssumption("statements outside the supported subset are proved unreachable under the contract's preconditions: " + string(e))
					outs = nil
				}
			}()
		}
	}
	return st.exec1(s)
}

func (st *State) exec1(s ast.Stmt) []Outcome {
	switch x := s.(type) {
	case *ast.BlockStmt:
		return st.execBlock(x.List)
	case *ast.EmptyStmt:
		return normal(st)
	case *ast.ExprStmt:
		if call, ok := x.X.(*ast.CallExpr); ok {
			return st.execCallStmt(call, nil, token.ILLEGAL)
		}
		st.eval(x.X)
		return normal(st)
	case *ast.DeclStmt:
		gd := x.Decl.(*ast.GenDecl)
		if gd.Tok == token.VAR {
			for _, sp := range gd.Specs {
				vs := sp.(*ast.ValueSpec)
				if len(vs.Values) == 1 && len(vs.Names) > 1 {
					if call, ok := vs.Values[0].(*ast.CallExpr); ok {
						lhs := make([]ast.Expr, len(vs.Names))
						for i, n := range vs.Names {
							lhs[i] = n
						}
						return st.execCallStmt(call, lhs, token.DEFINE)
					}
				}
				for i, name := range vs.Names {
					obj := st.info().Defs[name]
					if obj == nil {
						continue
					}
					if i < len(vs.Values) {
						if call, ok := vs.Values[i].(*ast.CallExpr); ok && len(vs.Names) == 1 {
							return st.execCallStmt(call, []ast.Expr{name}, token.DEFINE)
						}
						st.vars[obj] = st.coerce(st.eval(vs.Values[i]), obj.Type())
					} else {
						st.vars[obj] = st.zeroVal(obj.Type())
					}
					if at, isArr := obj.Type().Underlying().(*types.Array); isArr && st.fc.promote[obj] {
						st.vars[obj] = st.newPromotedArray(at, st.vars[obj])
					}
				}
			}
		}
		return normal(st)
	case *ast.AssignStmt:
		return st.execAssign(x)
	case *ast.IncDecStmt:
		cur := st.eval(x.X)
		op := "+"
		if x.Tok == token.DEC {
			op = "-"
		}
		t := st.typeOf(x.X)
		st.assignTo(x.X, st.arith(op, cur, vInt("1", t), t, x.Pos(), exprStr(x.X)+x.Tok.String()))
		return normal(st)
	case *ast.IfStmt:
		return st.execIf(x)
	case *ast.ForStmt:
		return st.execFor(x, "")
	case *ast.RangeStmt:
		return st.execRange(x, "")
	case *ast.LabeledStmt:
		switch inner := x.Stmt.(type) {
		case *ast.ForStmt:
			return st.execFor(inner, x.Label.Name)
		case *ast.RangeStmt:
			return st.execRange(inner, x.Label.Name)
		}
		return st.exec(x.Stmt)
	case *ast.SwitchStmt:
		return st.execSwitch(x)
	case *ast.BranchStmt:
		label := ""
		if x.Label != nil {
			label = x.Label.Name
		}
		switch x.Tok {
		case token.BREAK:
			return []Outcome{{st: st, kind: oBreak, label: label}}
		case token.CONTINUE:
			return []Outcome{{st: st, kind: oContinue, label: label}}
		}
		panic(vcErr("unsupported branch statement " + x.Tok.String()))
	case *ast.ReturnStmt:
		return st.execReturn(x)
	case *ast.DeferStmt:
		st.defers = append(st.defers, deferred{call: x.Call})
		return normal(st)
	case *ast.GoStmt:
		panic(vcErr("go statement outside the concurrency extension"))
	}
	panic(vcErr(fmt.Sprintf("unsupported statement %T", s)))
}

func (st *State) execReturn(x *ast.ReturnStmt) []Outcome {
	fc := st.fc
	var vals []Val
	if len(x.Results) == 0 {
		for _, r := range fc.results {
			vals = append(vals, st.vars[r])
		}
		return []Outcome{{st: st, kind: oReturn, vals: vals}}
	}
	if len(x.Results) == 1 && fc.sig.Results().Len() > 1 {
		call, ok := x.Results[0].(*ast.CallExpr)
		if !ok {
			panic(vcErr("multi-value return of non-call"))
		}
		var outs []Outcome
		for _, o := range st.execCallValues(call) {
			if o.kind == oNormal {
				o.kind = oReturn
			}
			outs = append(outs, o)
		}
		return outs
	}
	if len(x.Results) == 1 {
		if call, ok := x.Results[0].(*ast.CallExpr); ok && !st.isSimpleCall(call) {
			var outs []Outcome
			for _, o := range st.execCallValues(call) {
				if o.kind == oNormal {
					o.kind = oReturn
					o.vals = []Val{o.st.coerce(o.vals[0], fc.sig.Results().At(0).Type())}
				}
				outs = append(outs, o)
			}
			return outs
		}
	}
	for i, r := range x.Results {
		vals = append(vals, st.coerce(st.eval(r), fc.sig.Results().At(i).Type()))
	}
	return []Outcome{{st: st, kind: oReturn, vals: vals}}
}

func (st *State) execAssign(x *ast.AssignStmt) []Outcome {
	// op-assign
	if x.Tok != token.ASSIGN && x.Tok != token.DEFINE {
		op := strings.TrimSuffix(x.Tok.String(), "=")
		cur := st.eval(x.Lhs[0])
		rhs := st.eval(x.Rhs[0])
		t := st.typeOf(x.Lhs[0])
		var v Val
		if op == "<<" || op == ">>" {
			v = st.shift(op, cur, rhs, t, st.typeOf(x.Rhs[0]), x.Pos(), exprStr(x.Lhs[0])+x.Tok.String())
		} else {
			v = st.arith(op, cur, rhs, t, x.Pos(), exprStr(x.Lhs[0])+x.Tok.String()+exprStr(x.Rhs[0]))
		}
		st.assignTo(x.Lhs[0], v)
		return normal(st)
	}
	if len(x.Rhs) == 1 {
		if call, ok := x.Rhs[0].(*ast.CallExpr); ok && (len(x.Lhs) > 1 || !st.isSimpleCall(call)) {
			return st.execCallStmt(call, x.Lhs, x.Tok)
		}
		if len(x.Lhs) == 2 {
			// v, ok := m[k]
			if ix, ok := x.Rhs[0].(*ast.IndexExpr); ok && classify(st.typeOf(ix.X)) == tcMap {
				m := st.eval(ix.X)
				k := st.eval(ix.Index)
				v, present := st.mapLookup(m, st.typeOf(ix.X), k)
				st.bind(x.Lhs[0], v, x.Tok)
				st.bind(x.Lhs[1], vBool(present), x.Tok)
				return normal(st)
			}
			panic(vcErr("unsupported 2-value assignment " + exprStr(x.Rhs[0])))
		}
	}
	if len(x.Lhs) != len(x.Rhs) {
		panic(vcErr("assignment count mismatch"))
	}
	vals := make([]Val, len(x.Rhs))
	for i, r := range x.Rhs {
		vals[i] = st.eval(r)
	}
	for i, l := range x.Lhs {
		st.bind(l, vals[i], x.Tok)
	}
	return normal(st)
}

func (st *State) bind(lhs ast.Expr, v Val, tok token.Token) {
	if id, ok := lhs.(*ast.Ident); ok {
		if id.Name == "_" {
			return
		}
		if tok == token.DEFINE {
			if obj := st.info().Defs[id]; obj != nil {
				st.vars[obj] = st.coerce(v, st.subst(obj.Type()))
				return
			}
		}
	}
	st.assignTo(lhs, v)
}

func (st *State) assignTo(lhs ast.Expr, v Val) {
	if _, isIdent := ast.Unparen(lhs).(*ast.Ident); !isIdent && st.fc.isRG() && !st.rgInAtomic && st.fc.inlineDepth == 0 && st.rgPre == nil && st.rgLate {
		// rely-guarantee mode: a plain (non-atomic) store into memory is visible to the other goroutines as well:
		// it must satisfy the guarantee and keep the shared invariant, like an atomic step (no interference is
		// inserted before it: the access is assumed race free, which the guarantee makes explicit)
		st.rgPre = st.snapshot(nil)
		st.assignTo1(lhs, v)
		st.rgCheckStep("plain-store("+exprStr(lhs)+")", lhs.Pos())
		return
	}
	st.assignTo1(lhs, v)
}

func (st *State) assignTo1(lhs ast.Expr, v Val) {
	switch x := lhs.(type) {
	case *ast.ParenExpr:
		st.assignTo(x.X, v)
	case *ast.Ident:
		if x.Name == "_" {
			return
		}
		obj := st.info().ObjectOf(x)
		if _, ok := st.vars[obj]; !ok {
			if vo, isVar := obj.(*types.Var); isVar && vo.Parent() == vo.Pkg().Scope() {
				st.assignGlobal(vo, st.coerce(v, obj.Type()))
				return
			}
		}
		if cur, ok := st.vars[obj]; ok && cur.K == KSlice && cur.Sort == "promoted" {
			// the binding itself never changes: only the heap row does
			st.writePromoted(cur, obj.Type().Underlying().(*types.Array), v)
			return
		}
		if st.fc.rec != nil {
			st.fc.rec.vars[obj] = true
		}
		st.vars[obj] = st.coerce(v, st.subst(obj.Type()))
	case *ast.StarExpr:
		p := st.eval(x.X)
		st.storeThrough(p, st.coerce(v, st.typeOf(lhs)), x.Pos(), exprStr(x.X))
	case *ast.IndexExpr:
		bt := st.typeOf(x.X)
		if classify(bt) == tcMap {
			m := st.eval(x.X)
			st.checkGuardedMutation(x.X)
			k := st.eval(x.Index)
			st.mapStore(m, bt, k, st.coerce(v, bt.Underlying().(*types.Map).Elem()), x.Pos(), exprStr(x.X))
			return
		}
		var base Val
		if pv, ok := st.promotedVar(x.X); ok {
			base = pv
		} else {
			base = st.eval(x.X)
		}
		idx := st.eval(x.Index)
		switch base.K {
		case KSlice:
			st.oblige("bounds", "index("+exprStr(x)+")", sAnd(sCmp("<=", "0", idx.S), sCmp("<", idx.S, base.length())), x.Pos())
			st.storeElem(base, idx.S, st.coerce(v, sliceElemType(base.T)))
		case KArray:
			at := base.T.Underlying().(*types.Array)
			st.oblige("bounds", "index("+exprStr(x)+")", sAnd(sCmp("<=", "0", idx.S), sCmp("<", idx.S, sInt(at.Len()))), x.Pos())
			nv := base
			nv.Sub = append([]Val(nil), base.Sub...)
			ev := flatten(st.coerce(v, at.Elem()))
			for j := range nv.Sub {
				nv.Sub[j].S = st.define("arrv", nv.Sub[j].Sort, sStore(nv.Sub[j].S, idx.S, ev[j]))
			}
			st.assignTo(x.X, nv)
		case KInt:
			if p, ok := bt.Underlying().(*types.Pointer); ok {
				if at, isArr := p.Elem().Underlying().(*types.Array); isArr {
					arr := st.deref(base, x.Pos(), exprStr(x.X))
					st.oblige("bounds", "index("+exprStr(x)+")", sAnd(sCmp("<=", "0", idx.S), sCmp("<", idx.S, sInt(at.Len()))), x.Pos())
					nv := arr
					nv.Sub = append([]Val(nil), arr.Sub...)
					ev := flatten(st.coerce(v, at.Elem()))
					for j := range nv.Sub {
						nv.Sub[j].S = sStore(nv.Sub[j].S, idx.S, ev[j])
					}
					st.storeThrough(base, nv, x.Pos(), exprStr(x.X))
					return
				}
			}
			panic(vcErr("unsupported indexed assignment " + exprStr(x)))
		default:
			panic(vcErr("unsupported indexed assignment " + exprStr(x)))
		}
	case *ast.SelectorExpr:
		sel, ok := st.info().Selections[x]
		if !ok || sel.Kind() != types.FieldVal {
			if id, isID := x.X.(*ast.Ident); isID {
				if _, isPkg := st.info().ObjectOf(id).(*types.PkgName); isPkg {
					panic(vcErr("assignment to foreign package variable " + exprStr(x)))
				}
			}
			panic(vcErr("unsupported selector assignment " + exprStr(x)))
		}
		st.assignPath(x.X, st.typeOf(x.X), sel.Index(), st.coerce(v, sel.Type()), x)
	default:
		panic(vcErr(fmt.Sprintf("unsupported assignment target %T", lhs)))
	}
}

// assignPath writes v into base.path (path of field indices, with implicit derefs).
func (st *State) assignPath(baseE ast.Expr, baseT types.Type, path []int, v Val, x *ast.SelectorExpr) {
	s, structT := structOf(baseT)
	if s == nil {
		panic(vcErr("field assignment on non-struct"))
	}
	f := s.Field(path[0])
	_, isPtr := baseT.Underlying().(*types.Pointer)
	if !isPtr {
		if _, isSel := ast.Unparen(baseE).(*ast.SelectorExpr); isSel {
			// base is an interior object (l.root.next = ...): it stands for its own address
			if b := st.eval(baseE); b.K == KInt && b.T != nil {
				if p, ok := b.T.Underlying().(*types.Pointer); ok && types.Identical(p.Elem(), baseT) {
					if len(path) != 1 {
						panic(vcErr("nested path through an interior object"))
					}
					st.writeField(b, baseT, f.Name(), path[0], v, x)
					return
				}
			}
		}
	}
	if len(path) > 1 {
		// read the embedded struct, update inside, write back
		var inner Val
		if isPtr {
			b := st.eval(baseE)
			inner = st.selectPath(b, baseT, path[:1], x)
			nv := st.updatePath(inner, f.Type(), path[1:], v)
			st.writeField(b, structT, f.Name(), path[0], nv, x)
			return
		}
		b := st.eval(baseE)
		nv := st.updatePath(b, baseT, path, v)
		st.assignTo(baseE, nv)
		return
	}
	if isPtr {
		b := st.eval(baseE)
		st.writeField(b, structT, f.Name(), path[0], v, x)
		return
	}
	b := st.eval(baseE)
	if b.K != KStruct {
		panic(vcErr("field assignment on non-struct value"))
	}
	nv := b
	nv.Sub = append([]Val(nil), b.Sub...)
	nv.Sub[path[0]] = v
	st.assignTo(baseE, nv)
}

func (st *State) writeField(b Val, structT types.Type, field string, idx int, v Val, x *ast.SelectorExpr) {
	switch b.K {
	case KPtrVar:
		cur := st.vars[b.Obj]
		nv := cur
		nv.Sub = append([]Val(nil), cur.Sub...)
		nv.Sub[idx] = v
		st.vars[b.Obj] = nv
	case KPtrElem:
		cur := st.deref(b, x.Pos(), exprStr(x.X))
		nv := cur
		nv.Sub = append([]Val(nil), cur.Sub...)
		nv.Sub[idx] = v
		st.storeThrough(b, nv, x.Pos(), exprStr(x.X))
	default:
		st.obligeNonNil(b, x.Pos(), exprStr(x.X))
		st.checkGuardedWrite(structT, field, b, x)
		st.storeField(b.S, structT, field, v)
	}
}

func (st *State) updatePath(cur Val, curT types.Type, path []int, v Val) Val {
	if len(path) == 0 {
		return v
	}
	s, _ := structOf(curT)
	if _, isPtr := curT.Underlying().(*types.Pointer); isPtr {
		panic(vcErr("nested pointer path in assignment"))
	}
	nv := cur
	nv.Sub = append([]Val(nil), cur.Sub...)
	nv.Sub[path[0]] = st.updatePath(cur.Sub[path[0]], s.Field(path[0]).Type(), path[1:], v)
	return nv
}

func (st *State) assignGlobal(o *types.Var, v Val) {
	base := "G_" + o.Pkg().Name() + "_" + o.Name()
	st.ghost["$global$"+base] = v
	st.ghost["$globalw$"+base] = Val{K: KUnit}
}

// ---------- if / switch with state merging ----------

func (st *State) execIf(x *ast.IfStmt) []Outcome {
	if x.Init != nil {
		outs := st.exec(x.Init)
		if len(outs) != 1 || outs[0].kind != oNormal {
			var res []Outcome
			for _, o := range outs {
				if o.kind != oNormal {
					res = append(res, o)
					continue
				}
				res = append(res, o.st.execIfCond(x)...)
			}
			return res
		}
		st = outs[0].st
	}
	return st.execIfCond(x)
}

// hasAtomicCall: the expression contains a call into sync/atomic (a side effect that must not be executed when a
// short-circuit operator skips it)
func (st *State) hasAtomicCall(e ast.Expr) bool {
	found := false
	ast.Inspect(e, func(n ast.Node) bool {
		if call, ok := n.(*ast.CallExpr); ok {
			if sel, ok := call.Fun.(*ast.SelectorExpr); ok {
				if id, ok := sel.X.(*ast.Ident); ok {
					if pn, ok := st.info().ObjectOf(id).(*types.PkgName); ok && pn.Imported().Path() == "sync/atomic" {
						found = true
					}
				}
			}
		}
		return !found
	})
	return found
}

func (st *State) execIfCond(x *ast.IfStmt) []Outcome {
	elseF := func(s *State) []Outcome {
		if x.Else == nil {
			return normal(s)
		}
		return s.exec(x.Else)
	}
	if be, ok := ast.Unparen(x.Cond).(*ast.BinaryExpr); ok && be.Op == token.LAND && st.hasAtomicCall(be.Y) {
		// a && atomicOp(): the right operand has a side effect and runs only when the left one holds
		a := st.eval(be.X)
		ca := st.define("c", "Bool", a.S)
		return st.branch(ca, func(s *State) []Outcome {
			b := s.eval(be.Y)
			cb := s.define("c", "Bool", b.S)
			return s.branch(cb, func(s2 *State) []Outcome { return s2.exec(x.Body) }, elseF)
		}, elseF)
	}
	c := st.eval(x.Cond)
	cond := st.define("c", "Bool", c.S)
	return st.branch(cond, func(s *State) []Outcome { return s.exec(x.Body) }, func(s *State) []Outcome {
		if x.Else == nil {
			return normal(s)
		}
		return s.exec(x.Else)
	})
}

func (st *State) branch(cond string, thenF, elseF func(*State) []Outcome) []Outcome {
	if cond == "true" {
		return thenF(st)
	}
	if cond == "false" {
		return elseF(st)
	}
	base := st.facts
	s1 := st.clone()
	s1.addFact(guarded(s1.guard, cond))
	o1 := thenF(s1)
	s2 := st.clone()
	s2.addFact(guarded(s2.guard, sNot(cond)))
	o2 := elseF(s2)
	// merge when both sides fall through with a single normal outcome
	var n1, n2 []Outcome
	var rest []Outcome
	for _, o := range o1 {
		if o.kind == oNormal {
			n1 = append(n1, o)
		} else {
			rest = append(rest, o)
		}
	}
	for _, o := range o2 {
		if o.kind == oNormal {
			n2 = append(n2, o)
		} else {
			rest = append(rest, o)
		}
	}
	if len(n1) == 1 && len(n2) == 1 && !st.fc.V.noMerge && !(st.fc.curContract != nil && st.fc.curContract.NoMerge) {
		if m := mergeStates(st, base, cond, n1[0].st, n2[0].st); m != nil {
			return append([]Outcome{{st: m, kind: oNormal}}, rest...)
		}
	}
	out := append(n1, n2...)
	return append(out, rest...)
}

func guarded(guard []string, t string) string {
	if len(guard) > 0 {
		return sImp(sAnd(guard...), t)
	}
	return t
}

// mergeStates joins two states that forked from `orig` at `cond`.
func mergeStates(orig *State, base *flist, cond string, a, b *State) *State {
	if len(a.defers) != len(b.defers) {
		return nil
	}
	for k, v := range a.locks {
		if b.locks[k] != v {
			return nil
		}
	}
	for k, v := range b.locks {
		if a.locks[k] != v {
			return nil
		}
	}
	m := orig.clone()
	// facts: common prefix = base; extras guarded by the branch condition
	extra := func(s *State) []string {
		var out []string
		for p := s.facts; p != nil && p != base; p = p.prev {
			out = append(out, p.term)
		}
		// reverse
		for i, j := 0, len(out)-1; i < j; i, j = i+1, j-1 {
			out[i], out[j] = out[j], out[i]
		}
		return out
	}
	ea, eb := extra(a), extra(b)
	m.facts = base
	// the first extra fact of each side is the branch condition itself
	for _, f := range ea {
		if f == cond || f == guarded(orig.guard, cond) {
			continue
		}
		if isDefinition(f) {
			m.addFact(f)
		} else {
			m.addFact(sImp(cond, f))
		}
	}
	nc := sNot(cond)
	for _, f := range eb {
		if f == nc || f == guarded(orig.guard, nc) {
			continue
		}
		if isDefinition(f) {
			m.addFact(f)
		} else {
			m.addFact(sImp(nc, f))
		}
	}
	// variables
	m.vars = map[types.Object]Val{}
	for _, k := range sortedObjs(a.vars) { // deterministic numbering of the phi symbols
		va := a.vars[k]
		vb, ok := b.vars[k]
		if !ok {
			continue // declared in one branch only: out of scope afterwards
		}
		mv, ok := mergeVal(m, cond, va, vb)
		if !ok {
			return nil
		}
		m.vars[k] = mv
	}
	m.ghost = map[string]Val{}
	var gks []string
	for k := range a.ghost {
		gks = append(gks, k)
	}
	sort.Strings(gks)
	for _, k := range gks {
		va := a.ghost[k]
		vb, ok := b.ghost[k]
		if !ok {
			if strings.HasPrefix(k, "$global") {
				m.ghost[k] = va
			}
			continue
		}
		mv, ok := mergeVal(m, cond, va, vb)
		if !ok {
			return nil
		}
		m.ghost[k] = mv
	}
	for k, vb := range b.ghost {
		if _, ok := a.ghost[k]; !ok && strings.HasPrefix(k, "$global") {
			m.ghost[k] = vb
		}
	}
	// heaps
	m.heap = map[string]string{}
	names := map[string]bool{}
	for k := range a.heap {
		names[k] = true
	}
	for k := range b.heap {
		names[k] = true
	}
	var ks []string
	for k := range names {
		ks = append(ks, k)
	}
	sort.Strings(ks)
	for _, k := range ks {
		sortK := orig.fc.heapSorts[k]
		ha := a.heapGet(k, sortK)
		hb := b.heapGet(k, sortK)
		if ha == hb {
			m.heap[k] = ha
		} else {
			m.heap[k] = m.define("H_"+k, sortK, sIte(cond, ha, hb))
		}
	}
	if a.alloc == b.alloc {
		m.alloc = a.alloc
	} else {
		m.alloc = m.define("alloc", "Int", sIte(cond, a.alloc, b.alloc))
	}
	m.defers = a.defers
	m.locks = a.locks
	return m
}

func sortedObjs(m map[types.Object]Val) []types.Object {
	out := make([]types.Object, 0, len(m))
	for k := range m {
		out = append(out, k)
	}
	sort.Slice(out, func(i, j int) bool {
		if out[i].Pos() != out[j].Pos() {
			return out[i].Pos() < out[j].Pos()
		}
		return out[i].Name() < out[j].Name()
	})
	return out
}

func isDefinition(f string) bool { return defFacts[f] }

// defFacts records the exact text of facts introduced by State.define (total definitions of fresh constants).
var defFacts = map[string]bool{}

func mergeVal(m *State, cond string, a, b Val) (Val, bool) {
	if a.K != b.K {
		if a.K == KNil || b.K == KNil {
			return Val{}, false
		}
		return Val{}, false
	}
	switch a.K {
	case KInt:
		if a.S == b.S {
			return a, true
		}
		r := a
		r.S = m.define("phi", "Int", sIte(cond, a.S, b.S))
		return r, true
	case KBool:
		if a.S == b.S {
			return a, true
		}
		r := a
		r.S = m.define("phi", "Bool", sIte(cond, a.S, b.S))
		return r, true
	case KRaw:
		if a.S == b.S {
			return a, true
		}
		r := a
		r.S = m.define("phi", a.Sort, sIte(cond, a.S, b.S))
		return r, true
	case KSlice, KString, KStruct, KTuple, KArray:
		if len(a.Sub) != len(b.Sub) {
			return Val{}, false
		}
		r := a
		r.Sub = make([]Val, len(a.Sub))
		for i := range a.Sub {
			v, ok := mergeVal(m, cond, a.Sub[i], b.Sub[i])
			if !ok {
				return Val{}, false
			}
			r.Sub[i] = v
		}
		return r, true
	case KPtrVar:
		if a.Obj == b.Obj {
			return a, true
		}
		return Val{}, false
	case KFunc:
		if a.Fn == b.Fn && a.Obj == b.Obj {
			return a, true
		}
		return Val{}, false
	case KUnit, KNil:
		return a, true
	case KPtrElem:
		return Val{}, false
	}
	return Val{}, false
}

func (st *State) execSwitch(x *ast.SwitchStmt) []Outcome {
	if x.Init != nil {
		outs := st.exec(x.Init)
		if len(outs) != 1 || outs[0].kind != oNormal {
			panic(vcErr("switch init with control flow"))
		}
		st = outs[0].st
	}
	var tag *Val
	var tagT types.Type
	if x.Tag != nil {
		v := st.eval(x.Tag)
		tag = &v
		tagT = st.typeOf(x.Tag)
	}
	var clauses []*ast.CaseClause
	var deflt *ast.CaseClause
	for _, c := range x.Body.List {
		cc := c.(*ast.CaseClause)
		if cc.List == nil {
			deflt = cc
		} else {
			clauses = append(clauses, cc)
		}
		for _, s := range cc.Body {
			if b, ok := s.(*ast.BranchStmt); ok && b.Tok == token.FALLTHROUGH {
				panic(vcErr("fallthrough not supported"))
			}
		}
	}
	var run func(s *State, i int) []Outcome
	run = func(s *State, i int) []Outcome {
		if i == len(clauses) {
			if deflt != nil {
				return s.execBlock(deflt.Body)
			}
			return normal(s)
		}
		cc := clauses[i]
		var conds []string
		for k, e := range cc.List {
			// case expressions are evaluated lazily, left to right
			if k > 0 {
				s.pushGuard(sNot(sOr(conds...)))
			}
			v := s.eval(e)
			if k > 0 {
				s.popGuard()
			}
			if tag != nil {
				conds = append(conds, s.equal(*tag, v, tagT, s.typeOf(e)))
			} else {
				conds = append(conds, v.S)
			}
		}
		cond := s.define("c", "Bool", sOr(conds...))
		return s.branch(cond, func(t *State) []Outcome { return t.execBlock(cc.Body) }, func(t *State) []Outcome { return run(t, i+1) })
	}
	outs := run(st, 0)
	// break inside switch terminates the switch
	for i := range outs {
		if outs[i].kind == oBreak && outs[i].label == "" {
			outs[i].kind = oNormal
		}
	}
	return outs
}
