package main

import (
	"flag"
	"fmt"
	"os"
	"sort"
	"strings"
	"time"
)

func main() {
	if len(os.Args) < 2 {
		fmt.Fprintln(os.Stderr, "usage: govc <func|check|selftest> ...")
		os.Exit(2)
	}
	switch os.Args[1] {
	case "func":
		cmdFunc(os.Args[2:])
	case "check":
		cmdCheck(os.Args[2:])
	case "ords":
		cmdOrds(os.Args[2:])
	default:
		fmt.Fprintln(os.Stderr, "unknown command", os.Args[1])
		os.Exit(2)
	}
}

// cmdFunc: development mode, verify selected functions and print every obligation.
func cmdFunc(args []string) {
	fs := flag.NewFlagSet("func", flag.ExitOnError)
	repo := fs.String("repo", "/repo", "repository root")
	stdlib := fs.String("stdlib", "/verif/stdlib", "assumed contracts directory")
	pkg := fs.String("pkg", "", "package name (directory under repo)")
	fn := fs.String("func", "", "comma-separated function keys (default: all with contracts)")
	timeout := fs.Int("timeout", 10, "per-obligation solver timeout (s)")
	keep := fs.Bool("keep", false, "keep VC files")
	work := fs.String("work", "", "work dir for VC files")
	verbose := fs.Bool("v", false, "print every obligation")
	dump := fs.String("dump", "", "dump the VC of obligations whose name contains this string")
	nomerge := fs.Bool("nomerge", false, "do not merge states at if-joins")
	extra := fs.String("load", "", "extra package patterns to load with source (e.g. strconv)")
	fs.Parse(args)
	V := newVerifier(*repo, *stdlib)
	V.noMerge = *nomerge
	t0 := time.Now()
	loadPat := []string{"./..."}
	if *pkg == "stdlib" {
		loadPat = []string{"./typez"}
	}
	if *extra != "" {
		loadPat = append(loadPat, strings.Split(*extra, ",")...)
	}
	if err := V.load(loadPat); err != nil {
		fmt.Fprintln(os.Stderr, "load:", err)
		os.Exit(2)
	}
	fmt.Printf("loaded in %.1fs\n", time.Since(t0).Seconds())
	pc := V.contractsByName[*pkg]
	var keys []string
	if *fn != "" {
		keys = strings.Split(*fn, ",")
	} else {
		keys = append(keys, pc.Order...)
	}
	wd := *work
	if wd == "" {
		wd, _ = os.MkdirTemp("", "govc")
		defer os.RemoveAll(wd)
	}
	bad := 0
	for _, k := range keys {
		fct := pc.Funcs[k]
		if fct == nil {
			fmt.Printf("%s: no contract\n", k)
			bad++
			continue
		}
		var res *FuncResult
		if fct.Lemma {
			res = V.verifyLemma(*pkg, fct)
		} else {
			if fct.Trusted {
				fmt.Printf("%s.%s: trusted (not verified)\n", *pkg, k)
				continue
			}
			if fct.Inline && len(fct.Ensures) == 0 {
				continue // verified as part of its callers
			}
			fi := V.funcInfoForContract(*pkg, k, fct)
			if fi == nil {
				fmt.Printf("%s: no such function\n", k)
				bad++
				continue
			}
			res = V.verifyFunc(fi, fct)
		}
		if res.Err != "" {
			fmt.Printf("%s: ENGINE ERROR: %s\n", res.Name, res.Err)
			bad++
			continue
		}
		t1 := time.Now()
		V.discharge(res.Obls, SolveOpts{TimeoutS: *timeout, Workdir: wd, Workers: 16, KeepVCs: *keep})
		groupVacuity(res.Obls)
		np := 0
		for _, ob := range res.Obls {
			if ob.Status == "proved" {
				np++
			}
		}
		fmt.Printf("%s: %d/%d obligations discharged, %d paths, %.1fs\n", res.Name, np, len(res.Obls), res.Paths, time.Since(t1).Seconds())
		sort.SliceStable(res.Obls, func(i, j int) bool { return res.Obls[i].Name < res.Obls[j].Name })
		for _, ob := range res.Obls {
			if ob.Status != "proved" || *verbose {
				fmt.Printf("   %-8s %-60s %s %.2fs\n", ob.Status, ob.Name, ob.Solver, ob.Time)
				if ob.Status != "proved" {
					bad++
					if len(ob.Model) > 0 {
						var ks []string
						for k := range ob.Model {
							ks = append(ks, k)
						}
						sort.Strings(ks)
						var ms []string
						for _, k := range ks {
							ms = append(ms, k+"="+ob.Model[k])
						}
						fmt.Printf("      model: %s\n", strings.Join(ms, " "))
					}
				}
			}
			if *dump != "" && strings.Contains(ob.Name, *dump) {
				fmt.Println(V.vcText(ob, true))
			}
		}
		if len(res.WeakFrames) > 0 {
			fmt.Printf("   weak frames: %v\n", res.WeakFrames)
		}
	}
	if bad > 0 {
		if *work == "" {
			os.RemoveAll(wd)
		}
		os.Exit(1)
	}
}


// cmdOrds lists loop and call ordinals of a function (for writing anchors).
func cmdOrds(args []string) {
	fs := flag.NewFlagSet("ords", flag.ExitOnError)
	repo := fs.String("repo", "/repo", "repository root")
	pkg := fs.String("pkg", "", "package")
	fn := fs.String("func", "", "function key")
	fs.Parse(args)
	V := newVerifier(*repo, "/verif/stdlib")
	if err := V.load([]string{"./" + *pkg}); err != nil {
		fmt.Println(err)
		os.Exit(2)
	}
	fi := V.funcsByKey[*pkg+"."+*fn]
	if fi == nil {
		fmt.Println("no such function")
		os.Exit(2)
	}
	fc := V.newFuncCtx(fi, &FuncContract{})
	type ent struct {
		line int
		s    string
	}
	var es []ent
	for st, n := range fc.loopOrd {
		es = append(es, ent{fi.Pkg.Fset.Position(st.Pos()).Line, fmt.Sprintf("loop %d", n)})
	}
	for c, n := range fc.callOrd {
		es = append(es, ent{fi.Pkg.Fset.Position(c.Pos()).Line, fmt.Sprintf("call%d %s", n, exprStr(c))})
	}
	sort.Slice(es, func(i, j int) bool { return es[i].line < es[j].line || es[i].line == es[j].line && es[i].s < es[j].s })
	for _, e := range es {
		fmt.Printf("%5d  %s\n", e.line, e.s)
	}
}

// groupVacuity: a loop body must be reachable on at least one path; infeasible paths legitimately refute their own cover.
func groupVacuity(obls []*Obligation) {
	ok := map[string]bool{}
	for _, ob := range obls {
		if ob.Kind == "vacuity" && ob.Status == "proved" {
			ok[ob.Name] = true
		}
	}
	for _, ob := range obls {
		if ob.Kind == "vacuity" && ob.Status != "proved" && ok[ob.Name] {
			ob.Status = "proved"
			ob.Solver = "(another path reaches the body)"
		}
	}
}
