package main

// Contract files: /repo/<pkg>/verif_contracts.go (build tag "verif", comment-only).
// Lines starting with "//@" carry the contract language described in DESIGN.md.

import (
	"fmt"
	"go/types"
	"math/big"
	"os"
	"path/filepath"
	"strconv"
	"strings"
)

// ghostFieldReg: "pkg.Type.field" -> declared ghost field
var ghostFieldReg = map[string]string{} // "pkg.Type.field" -> "int" | "ref" | "seq"

type Clause struct {
	Kind string // requires ensures invariant decreases modifies assert panics_if ghost assume_stdlib
	Src  string
	Expr *SNode
	List []*SNode // for modifies
	Name string   // ghost var name / label
	Tag  string   // proof group ("behavior"): the clause is used only when verifying that group
	Line int
	File string
}

type LoopSpec struct {
	Ordinal    int
	Invariants []*Clause
	Decreases  *Clause
	Modifies   []*Clause
	Unroll     int // >0: fully unroll constant-trip loop up to this many iterations
}

type AnchorSpec struct {
	Anchor  string // "loop1.begin", "loop1.end", "begin", "end", "call3.before" ...
	Clauses []*Clause
}

type SpecParam struct{ Name, Type string }

type SpecFunc struct {
	Name    string
	Params  []SpecParam
	Result  string
	Body    *SNode
	Src     string
	Rec     bool // recursive: emitted as define-fun-rec
	DefFun  bool // non-recursive over scalars: emitted as define-fun instead of being inlined
	Opaque  bool
	Axioms  []*Clause
	File    string
	Line    int
	Pkg     string
}

type SplitSpec struct {
	Expr   *SNode
	Src    string
	Values []string
	Else   bool // one extra case: the expression equals none of the values
}

type FuncContract struct {
	Split     *SplitSpec
	IH        []*Clause
	Key       string // "Name" or "Recv.Name"
	Pkg       string
	Mode      string // "int" (default) or "bv"
	Requires  []*Clause
	Ensures   []*Clause
	Modifies  []*Clause
	PanicsIf  []*Clause
	Decreases *Clause
	Loops     map[int]*LoopSpec
	Anchors   map[string]*AnchorSpec
	Trusted   bool // body not verified; contract assumed
	Inline    bool
	Pure      bool
	Lemma     bool // ghost lemma: params declared in LemmaParams, no Go body
	LemmaPars []SpecParam
	Props     []string
	Wraps     bool // signed arithmetic wraps silently (no overflow obligations)
	NoTerm    bool
	RelIdx    bool
	Rely      []*Clause // rely-guarantee mode: two-state relations every step of the environment (other goroutines) satisfies
	Guarantee []*Clause // two-state relations every atomic step of this function satisfies (must imply the others' rely)
	SharedInv []*Clause // one-state invariants of the shared state, holding between atomic steps
	PartialWhen *SNode // partial when <cond over the entry state>: unsupported statements may be reached exactly under cond
	Partial   bool // statements outside the supported subset must be unreachable (obligation) instead of failing the function
	Allocates int  // allocates N: the function allocates exactly N objects/arrays (checked at every exit)
	NoAlloc   bool // the function allocates nothing (checked at every exit; callers keep their allocation counter)
	NoMerge   bool
	InstName  string
	GhostParams []string
	Full      *FuncContract // for a group-filtered copy: the complete contract
	InstParam string      // for "f@g" contracts: the function-typed parameter ...
	InstFunc  *types.Func // ... and the declared function it is bound to
	Traced    []string
	Ghosts    []*Clause
	File      string
	Line      int
	Uses      []string // lemma names assumed at entry
}

type GlobalSpec struct {
	Name       string
	Invariants []*Clause
}

type TypeSpec struct {
	Name       string
	Invariants []*Clause
	GuardedBy  map[string]string // field -> mutex field
}

type PkgContracts struct {
	GhostFields map[string]map[string]bool // type name -> ghost field names (integer-valued ghost state per object)
	Pkg     string
	Funcs   map[string]*FuncContract
	Specs   map[string]*SpecFunc
	Globals map[string]*GlobalSpec
	Types   map[string]*TypeSpec
	Axioms  []*Clause
	Order   []string
}

var clauseKeywords = map[string]bool{
	"func": true, "spec": true, "requires": true, "ensures": true, "modifies": true, "panics_if": true,
	"decreases": true, "loop": true, "invariant": true, "at": true, "assert": true, "ghost": true,
	"mode": true, "trusted": true, "inline": true, "pure": true, "axiom": true, "global": true,
	"type": true, "lemma": true, "props": true, "wraps": true, "unroll": true, "uses": true,
	"guarded_by": true, "relidx": true, "noterm": true, "noalloc": true, "allocates": true, "rely": true, "guarantee": true, "sharedinv": true, "ghostfield": true, "partial": true, "nomerge": true, "traced": true, "bind": true, "ghostparam": true, "recspec": true, "opaque": true, "assume": true, "havoc": true,
	"split": true, "stdlib": true, "defspec": true, "ih": true, "apply": true,
}

func parseContractFile(path string, pkg string, pc *PkgContracts) error {
	data, err := os.ReadFile(path)
	if err != nil {
		return err
	}
	type rawLine struct {
		text string
		line int
	}
	var clauses []rawLine
	for i, ln := range strings.Split(string(data), "\n") {
		t := strings.TrimSpace(ln)
		if strings.HasSuffix(path, ".contract") {
			// assumed-contract files use bare lines
			if strings.HasPrefix(t, "//@") {
				t = strings.TrimSpace(t[3:])
			}
		} else {
			if !strings.HasPrefix(t, "//@") {
				continue
			}
			t = strings.TrimSpace(t[3:])
		}
		if t == "" || strings.HasPrefix(t, "#") {
			continue
		}
		// strip trailing comment " // ..."
		if k := strings.Index(t, " // "); k >= 0 {
			t = strings.TrimSpace(t[:k])
		}
		first := t
		if k := strings.IndexAny(t, " \t:("); k >= 0 {
			first = t[:k]
		}
		if k := strings.Index(first, "["); k > 0 {
			first = first[:k]
		}
		if clauseKeywords[first] || len(clauses) == 0 {
			clauses = append(clauses, rawLine{t, i + 1})
		} else {
			clauses[len(clauses)-1].text += " " + t
		}
	}
	var cur *FuncContract
	var curLoop *LoopSpec
	var curAnchor *AnchorSpec
	var curGlobal *GlobalSpec
	var curType *TypeSpec
	var curSpec *SpecFunc
	curTag := ""
	mk := func(kind, src string, line int) (*Clause, error) {
		c := &Clause{Kind: kind, Src: src, Line: line, File: path, Tag: curTag}
		e, err := parseSpec(src)
		if err != nil {
			return nil, fmt.Errorf("%s:%d: %v", path, line, err)
		}
		c.Expr = e
		return c, nil
	}
	for _, rl := range clauses {
		t := rl.text
		kw := t
		rest := ""
		if k := strings.IndexAny(t, " \t"); k >= 0 {
			kw, rest = t[:k], strings.TrimSpace(t[k+1:])
		}
		kw = strings.TrimSuffix(kw, ":")
		tag := ""
		if k := strings.Index(kw, "["); k > 0 && strings.HasSuffix(kw, "]") {
			tag = kw[k+1 : len(kw)-1]
			kw = kw[:k]
		}
		curTag = tag
		bad := func(f string, a ...interface{}) error {
			return fmt.Errorf("%s:%d: %s", path, rl.line, fmt.Sprintf(f, a...))
		}
		switch kw {
		case "func", "lemma":
			name := rest
			var lpars []SpecParam
			if kw == "lemma" {
				k := strings.Index(rest, "(")
				if k < 0 {
					return bad("lemma needs parameter list")
				}
				name = strings.TrimSpace(rest[:k])
				ps := strings.TrimSuffix(strings.TrimSpace(rest[k+1:]), ")")
				for _, p := range splitTop(ps, ',') {
					f := strings.Fields(p)
					if len(f) != 2 {
						return bad("bad lemma parameter %q", p)
					}
					lpars = append(lpars, SpecParam{f[0], f[1]})
				}
			}
			name = strings.NewReplacer("(", "", ")", "", "*", "").Replace(name)
			name = strings.TrimSpace(name)
			cur = &FuncContract{Key: name, Pkg: pkg, Mode: "int", Loops: map[int]*LoopSpec{}, Anchors: map[string]*AnchorSpec{}, File: path, Line: rl.line, Lemma: kw == "lemma", LemmaPars: lpars}
			if _, dup := pc.Funcs[name]; dup {
				return bad("duplicate contract for %s", name)
			}
			pc.Funcs[name] = cur
			pc.Order = append(pc.Order, name)
			curLoop, curAnchor, curGlobal, curType, curSpec = nil, nil, nil, nil, nil
		case "spec", "recspec", "defspec":
			// spec name(a T, b T) R = body
			eq := strings.Index(rest, "=")
			// find the '=' that follows the closing paren of the parameter list
			depth := 0
			eq = -1
			for i, ch := range rest {
				if ch == '(' {
					depth++
				} else if ch == ')' {
					depth--
				} else if ch == '=' && depth == 0 {
					eq = i
					break
				}
			}
			head := rest
			body := ""
			if eq >= 0 {
				head, body = strings.TrimSpace(rest[:eq]), strings.TrimSpace(rest[eq+1:])
			}
			k := strings.Index(head, "(")
			k2 := strings.LastIndex(head, ")")
			if k < 0 || k2 < k {
				return bad("bad spec header %q", head)
			}
			sf := &SpecFunc{Name: strings.TrimSpace(head[:k]), Result: strings.TrimSpace(head[k2+1:]), Src: body, Rec: kw == "recspec", DefFun: kw == "defspec", File: path, Line: rl.line, Pkg: pkg}
			for _, p := range splitTop(head[k+1:k2], ',') {
				f := strings.Fields(p)
				if len(f) != 2 {
					return bad("bad spec parameter %q", p)
				}
				sf.Params = append(sf.Params, SpecParam{f[0], f[1]})
			}
			if body != "" {
				e, err := parseSpec(body)
				if err != nil {
					return bad("%v", err)
				}
				sf.Body = e
			}
			pc.Specs[sf.Name] = sf
			curSpec = sf
			cur, curLoop, curAnchor, curGlobal, curType = nil, nil, nil, nil, nil
		case "opaque":
			if curSpec != nil {
				curSpec.Opaque = true
			}
		case "axiom":
			// axiom name: expr   (package-level, or attached to the current uninterpreted spec)
			k := strings.Index(rest, ":")
			if k < 0 {
				return bad("axiom needs a name")
			}
			c, err := mk("axiom", strings.TrimSpace(rest[k+1:]), rl.line)
			if err != nil {
				return err
			}
			c.Name = strings.TrimSpace(rest[:k])
			pc.Axioms = append(pc.Axioms, c)
		case "global":
			name := strings.TrimSuffix(rest, ":")
			curGlobal = &GlobalSpec{Name: strings.TrimSpace(name)}
			pc.Globals[curGlobal.Name] = curGlobal
			cur, curLoop, curAnchor, curType, curSpec = nil, nil, nil, nil, nil
		case "type":
			name := strings.TrimSuffix(rest, ":")
			curType = &TypeSpec{Name: strings.TrimSpace(name), GuardedBy: map[string]string{}}
			pc.Types[curType.Name] = curType
			cur, curLoop, curAnchor, curGlobal, curSpec = nil, nil, nil, nil, nil
		case "guarded_by":
			if curType == nil {
				return bad("guarded_by outside type block")
			}
			// guarded_by mu: entries, other
			k := strings.Index(rest, ":")
			if k < 0 {
				return bad("guarded_by mu: fields")
			}
			mu := strings.TrimSpace(rest[:k])
			for _, f := range strings.Split(rest[k+1:], ",") {
				curType.GuardedBy[strings.TrimSpace(f)] = mu
			}
		case "mode":
			if cur == nil {
				return bad("mode outside func")
			}
			cur.Mode = rest
		case "trusted":
			cur.Trusted = true
		case "inline":
			cur.Inline = true
		case "pure":
			cur.Pure = true
		case "wraps":
			cur.Wraps = true
		case "traced":
			// traced f: calls of the function-valued parameter f are recorded in ghost tr_f (sequence) and ntr_f (count)
			for _, n := range strings.Fields(strings.ReplaceAll(rest, ",", " ")) {
				cur.Traced = append(cur.Traced, n)
			}
		case "ghostparam":
			// ghostparam n: an extra logical parameter; callers supply it through a ghost or local variable of that name
			for _, n := range strings.Fields(strings.ReplaceAll(rest, ",", " ")) {
				cur.GhostParams = append(cur.GhostParams, n)
			}
		case "bind":
			// bind <param> = <declared function>: this contract describes the instantiation f@g of a function-valued parameter
			f := strings.Fields(strings.ReplaceAll(rest, "=", " "))
			if cur == nil || len(f) != 2 {
				return bad("bind param = function")
			}
			cur.InstParam, cur.InstName = f[0], f[1]
		case "relidx":
			// quantifiers whose bound variable is used both as an index and inside compound index expressions
			// (s[k] next to b[4*k]) stay in relative-index form in every VC of this function
			if cur == nil {
				return bad("relidx outside func")
			}
			cur.RelIdx = true
		case "noterm":
			cur.NoTerm = true
		case "noalloc":
			cur.NoAlloc = true
		case "allocates":
			fmt.Sscanf(rest, "%d", &cur.Allocates)
		case "partial":
			cur.Partial = true
			if strings.HasPrefix(rest, "when ") {
				e, err := parseSpec(strings.TrimSpace(strings.TrimPrefix(rest, "when ")))
				if err != nil {
					return bad("partial when: %v", err)
				}
				cur.PartialWhen = e
			}
		case "nomerge":
			cur.NoMerge = true
		case "props":
			cur.Props = strings.Fields(rest)
		case "uses":
			for _, u := range strings.Split(rest, ",") {
				cur.Uses = append(cur.Uses, strings.TrimSpace(u))
			}
		case "loop":
			if cur == nil {
				return bad("loop outside func")
			}
			n, err := strconv.Atoi(strings.TrimSuffix(strings.TrimSpace(rest), ":"))
			if err != nil {
				return bad("bad loop ordinal %q", rest)
			}
			curLoop = &LoopSpec{Ordinal: n}
			cur.Loops[n] = curLoop
			curAnchor = nil
		case "unroll":
			if curLoop == nil {
				return bad("unroll outside loop")
			}
			n, err := strconv.Atoi(rest)
			if err != nil {
				return bad("bad unroll count")
			}
			curLoop.Unroll = n
		case "at":
			if cur == nil {
				return bad("at outside func")
			}
			a := strings.TrimSuffix(strings.TrimSpace(rest), ":")
			curAnchor = cur.Anchors[a]
			if curAnchor == nil {
				curAnchor = &AnchorSpec{Anchor: a}
				cur.Anchors[a] = curAnchor
			}
			curLoop = nil
		case "apply":
			// apply lemmaName(args): instantiate a proved lemma at an anchor (its requires become obligations)
			if curAnchor == nil {
				return bad("apply outside an 'at' anchor")
			}
			e, err := parseSpec(rest)
			if err != nil {
				return bad("%v", err)
			}
			if e.Op != "call" {
				return bad("apply needs lemma(args)")
			}
			curAnchor.Clauses = append(curAnchor.Clauses, &Clause{Kind: "apply", Src: rest, Expr: e, Line: rl.line, File: path, Tag: tag})
		case "ghostfield":
			// ghostfield Type.name : an integer-valued ghost field of every object of the struct type
			f := strings.Split(strings.Fields(rest)[0], ".")
			if len(f) != 2 {
				return bad("ghostfield Type.name")
			}
			if pc.GhostFields == nil {
				pc.GhostFields = map[string]map[string]bool{}
			}
			if pc.GhostFields[f[0]] == nil {
				pc.GhostFields[f[0]] = map[string]bool{}
			}
			pc.GhostFields[f[0]][f[1]] = true
			ghostFieldReg[pkg+"."+f[0]+"."+f[1]] = "int"
			if fs := strings.Fields(rest); len(fs) > 1 && fs[1] == "seq" {
				// a ghost field holding an integer sequence (e.g. per-slot ghost state of a ring)
				ghostFieldReg[pkg+"."+f[0]+"."+f[1]] = "seq"
			}
			if fs := strings.Fields(rest); len(fs) > 1 && fs[1] == "ref" {
				ghostFieldReg[pkg+"."+f[0]+"."+f[1]] = "ref"
				// a ghost field holding a reference: every stored value is nil or an allocated reference
				heapHoldsRefs["P!"+pkg+"."+f[0]+"!.$"+f[1]] = true
			}
		case "rely", "guarantee", "sharedinv":
			if cur == nil {
				return bad("%s outside func", kw)
			}
			e, err := parseSpec(rest)
			if err != nil {
				return bad("%v", err)
			}
			c := &Clause{Kind: kw, Src: rest, Expr: e, Line: rl.line, File: path, Tag: tag}
			switch kw {
			case "rely":
				cur.Rely = append(cur.Rely, c)
			case "guarantee":
				cur.Guarantee = append(cur.Guarantee, c)
			default:
				cur.SharedInv = append(cur.SharedInv, c)
			}
		case "requires", "ensures", "panics_if", "invariant", "decreases", "assert", "assume":
			c, err := mk(kw, rest, rl.line)
			if err != nil {
				return err
			}
			switch {
			case kw == "invariant" && curGlobal != nil:
				curGlobal.Invariants = append(curGlobal.Invariants, c)
			case kw == "invariant" && curType != nil:
				curType.Invariants = append(curType.Invariants, c)
			case kw == "invariant" && curLoop != nil:
				curLoop.Invariants = append(curLoop.Invariants, c)
			case kw == "decreases" && curLoop != nil:
				curLoop.Decreases = c
			case (kw == "assert" || kw == "assume") && curAnchor != nil:
				curAnchor.Clauses = append(curAnchor.Clauses, c)
			case cur == nil:
				return bad("%s outside func", kw)
			case kw == "requires":
				cur.Requires = append(cur.Requires, c)
			case kw == "ensures":
				cur.Ensures = append(cur.Ensures, c)
			case kw == "panics_if":
				cur.PanicsIf = append(cur.PanicsIf, c)
			case kw == "decreases":
				cur.Decreases = c
			default:
				return bad("%s not allowed here", kw)
			}
		case "modifies":
			c := &Clause{Kind: "modifies", Src: rest, Line: rl.line, File: path, Tag: tag}
			for _, part := range splitTop(rest, ',') {
				part = strings.TrimSpace(part)
				if part == "" || part == "nothing" {
					continue
				}
				e, err := parseSpec(part)
				if err != nil {
					return bad("%v", err)
				}
				c.List = append(c.List, e)
			}
			if curLoop != nil {
				curLoop.Modifies = append(curLoop.Modifies, c)
			} else if cur != nil {
				cur.Modifies = append(cur.Modifies, c)
			} else {
				return bad("modifies outside func")
			}
		case "ih":
			// explicit induction-hypothesis instance for a lemma: ih e1, e2, ... (one expression per lemma parameter)
			if cur == nil || !cur.Lemma {
				return bad("ih outside lemma")
			}
			c := &Clause{Kind: "ih", Src: rest, Line: rl.line, File: path}
			for _, part := range splitTop(rest, ',') {
				e, err := parseSpec(strings.TrimSpace(part))
				if err != nil {
					return bad("%v", err)
				}
				c.List = append(c.List, e)
			}
			cur.IH = append(cur.IH, c)
		case "split":
			// split <expr> pow2 <lo> <hi>   |   split <expr> values v1 v2 ...
			f := strings.Fields(rest)
			if cur == nil || len(f) < 3 {
				return bad("split <expr> pow2 lo hi | split <expr> values ...")
			}
			e, err := parseSpec(f[0])
			if err != nil {
				return bad("%v", err)
			}
			sp := &SplitSpec{Expr: e, Src: f[0]}
			switch f[1] {
			case "pow2":
				if len(f) != 4 {
					return bad("split pow2 needs lo hi")
				}
				lo, _ := strconv.Atoi(f[2])
				hi, _ := strconv.Atoi(f[3])
				for k := lo; k <= hi; k++ {
					sp.Values = append(sp.Values, new(big.Int).Lsh(big.NewInt(1), uint(k)).String())
				}
			case "values":
				sp.Values = f[2:]
			case "range":
				// split e range lo hi [else]: one case per integer, optionally one more case for "none of them"
				if len(f) < 4 {
					return bad("split range needs lo hi")
				}
				lo, _ := strconv.Atoi(f[2])
				hi, _ := strconv.Atoi(f[3])
				for k := lo; k <= hi; k++ {
					sp.Values = append(sp.Values, strconv.Itoa(k))
				}
				if len(f) > 4 && f[4] == "else" {
					sp.Else = true
				}
			default:
				return bad("split: unknown mode %s", f[1])
			}
			cur.Split = sp
		case "ghost", "havoc":
			// ghost name = expr   |  split expr in lo..hi
			c := &Clause{Kind: kw, Src: rest, Line: rl.line, File: path, Tag: tag}
			if kw == "ghost" {
				k := strings.Index(rest, "=")
				if k < 0 {
					return bad("ghost name = expr")
				}
				c.Name = strings.TrimSpace(rest[:k])
				if strings.HasPrefix(c.Name, "all ") {
					// ghost all T.f = <sequence expr>: bulk update of a ghost field of EVERY object of type T
				} else if strings.Contains(c.Name, ".") {
					// ghost x.f = e : assignment to a ghost field
					lhs, err := parseSpec(c.Name)
					if err != nil || lhs.Op != "sel" {
						return bad("ghost field assignment needs obj.field = expr")
					}
					c.List = []*SNode{lhs}
				}
				e, err := parseSpec(strings.TrimSpace(rest[k+1:]))
				if err != nil {
					return bad("%v", err)
				}
				c.Expr = e
			} else {
				e, err := parseSpec(rest)
				if err != nil {
					return bad("%v", err)
				}
				c.Expr = e
			}
			if curAnchor != nil {
				curAnchor.Clauses = append(curAnchor.Clauses, c)
			} else if cur != nil {
				cur.Ghosts = append(cur.Ghosts, c)
			} else {
				return bad("%s outside func", kw)
			}
		default:
			return bad("unknown clause %q", kw)
		}
	}
	return nil
}

func splitTop(s string, sep rune) []string {
	var out []string
	depth := 0
	start := 0
	for i, ch := range s {
		switch ch {
		case '(', '[', '{':
			depth++
		case ')', ']', '}':
			depth--
		default:
			if ch == sep && depth == 0 {
				out = append(out, s[start:i])
				start = i + 1
			}
		}
	}
	if strings.TrimSpace(s[start:]) != "" {
		out = append(out, s[start:])
	}
	return out
}

func newPkgContracts(pkg string) *PkgContracts {
	return &PkgContracts{Pkg: pkg, Funcs: map[string]*FuncContract{}, Specs: map[string]*SpecFunc{}, Globals: map[string]*GlobalSpec{}, Types: map[string]*TypeSpec{}}
}

// loadContracts reads every verif_*.go contract file of a package directory.
func loadContracts(dir, pkg string) (*PkgContracts, error) {
	pc := newPkgContracts(pkg)
	files, _ := filepath.Glob(filepath.Join(dir, "verif_*.go"))
	for _, f := range files {
		if err := parseContractFile(f, pkg, pc); err != nil {
			return nil, err
		}
	}
	return pc, nil
}
