package main

import (
	"bytes"
	"context"
	"crypto/sha256"
	"fmt"
	"os"
	"os/exec"
	"path/filepath"
	"strings"
	"sync"
	"time"
)

// ---------- prelude pieces ----------

func (V *Verifier) addPrelude(key string, lines ...string) {
	if V.preludeSeen[key] {
		return
	}
	V.preludeSeen[key] = true
	V.prelude = append(V.prelude, lines...)
}

func pow2Def() string {
	var b strings.Builder
	b.WriteString("(define-fun g_pow2 ((k Int)) Int ")
	for i := 0; i < 64; i++ {
		fmt.Fprintf(&b, "(ite (= k %d) %s ", i, pow2(uint(i)).String())
	}
	b.WriteString("(ite (< k 0) 1 " + pow2(64).String() + ")")
	b.WriteString(strings.Repeat(")", 64))
	b.WriteString(")")
	return b.String()
}

// bitFun returns a term for a bitwise operation on non-constant operands.
func (V *Verifier) bitFun(fc *FuncCtx, op string, bits uint, a, b string) string {
	name := map[string]string{"&": "and", "|": "or", "^": "xor", "&^": "andnot"}[op]
	if bits == 8 || bits == 16 {
		sym := fmt.Sprintf("g_%s%d", name, bits)
		if !V.preludeSeen[sym] {
			var terms []string
			for k := uint(0); k < bits; k++ {
				p := pow2(k).String()
				ba := fmt.Sprintf("(= (mod (div a %s) 2) 1)", p)
				bb := fmt.Sprintf("(= (mod (div b %s) 2) 1)", p)
				var c string
				switch name {
				case "and":
					c = sApp("and", ba, bb)
				case "or":
					c = sApp("or", ba, bb)
				case "xor":
					c = sApp("xor", ba, bb)
				case "andnot":
					c = sApp("and", ba, sApp("not", bb))
				}
				terms = append(terms, sApp("ite", c, p, "0"))
			}
			V.addPrelude(sym, fmt.Sprintf("(define-fun %s ((a Int) (b Int)) Int (+ %s))", sym, strings.Join(terms, " ")))
		}
		return sApp(sym, a, b)
	}
	sym := "g_" + name + "W"
	if !V.preludeSeen[sym] {
		lines := []string{fmt.Sprintf("(declare-fun %s (Int Int) Int)", sym)}
		pat := fmt.Sprintf(":pattern ((%s a b))", sym)
		nonneg := "(and (<= 0 a) (<= 0 b))"
		switch name {
		case "and":
			lines = append(lines, fmt.Sprintf("(assert (forall ((a Int) (b Int)) (! (=> %s (and (<= 0 (%s a b)) (<= (%s a b) a) (<= (%s a b) b))) %s)))", nonneg, sym, sym, sym, pat))
		case "or":
			lines = append(lines, fmt.Sprintf("(assert (forall ((a Int) (b Int)) (! (=> %s (and (<= a (%s a b)) (<= b (%s a b)) (<= (%s a b) (+ a b)))) %s)))", nonneg, sym, sym, sym, pat))
		case "xor":
			lines = append(lines, fmt.Sprintf("(assert (forall ((a Int) (b Int)) (! (=> %s (and (<= 0 (%s a b)) (<= (%s a b) (+ a b)))) %s)))", nonneg, sym, sym, pat))
		case "andnot":
			lines = append(lines, fmt.Sprintf("(assert (forall ((a Int) (b Int)) (! (=> %s (and (<= 0 (%s a b)) (<= (%s a b) a))) %s)))", nonneg, sym, sym, pat))
		}
		V.addPrelude(sym, lines...)
		fc.noteAssumption("bitwise " + op + " on wide non-constant operands is an uninterpreted function with range axioms only")
	}
	return sApp(sym, a, b)
}

// useSpecFun makes sure the SMT function for a spec function is declared/defined in the prelude.
func (V *Verifier) useSpecFun(fc *FuncCtx, sf *SpecFunc, sym string, sorts []string, rs string) {
	if V.preludeSeen[sym] {
		return
	}
	V.preludeSeen[sym] = true
	if sf.Body == nil {
		V.prelude = append(V.prelude, fmt.Sprintf("(declare-fun %s (%s) %s)", sym, strings.Join(sorts, " "), rs))
		return
	}
	// recursive definition: evaluate the body with parameters bound to SMT variables
	tmp := &FuncCtx{V: V, Pkg: fc.Pkg, Name: "spec " + sf.Name, declared: map[string]bool{}, oblCount: map[string]int{}, heapSorts: map[string]string{}}
	st := &State{fc: tmp, vars: nil, ghost: map[string]Val{}, heap: map[string]string{}, locks: map[string]int{}, alloc: "0"}
	bind := map[string]Val{}
	var params []string
	for _, p := range sf.Params {
		if p.Type == "bytes" {
			params = append(params, "(p_"+p.Name+" (Array Int Int))", "(p_"+p.Name+"_off Int)")
			if specUsesLen(sf, p.Name) {
				params = append(params, "(p_"+p.Name+"_len Int)")
				bind[p.Name] = mkString(nil, "p_"+p.Name, "p_"+p.Name+"_off", "p_"+p.Name+"_len")
			} else {
				bind[p.Name] = mkString(nil, "p_"+p.Name, "p_"+p.Name+"_off", "0")
			}
			continue
		}
		srt := specSort(p.Type)
		params = append(params, "(p_"+p.Name+" "+srt+")")
		switch srt {
		case "Bool":
			bind[p.Name] = vBool("p_" + p.Name)
		case "Int":
			bind[p.Name] = vInt("p_"+p.Name, nil)
		default:
			bind[p.Name] = vRaw("p_"+p.Name, srt)
		}
	}
	q := 0
	env := &SpecEnv{st: st, names: bind, pkg: V.pkgByName[sf.Pkg], what: "recspec " + sf.Name, qcount: &q}
	body := env.eval(sf.Body)
	if len(tmp.decls) > 0 || st.facts != nil {
		panic(vcErr("recspec " + sf.Name + " must be closed (no heap reads, no string constants)"))
	}
	V.prelude = append(V.prelude, fmt.Sprintf("(define-fun-rec %s (%s) %s %s)", sym, strings.Join(params, " "), rs, body.S))
}

// ---------- VC text ----------

func (V *Verifier) vcText(ob *Obligation, withModel bool) string {
	var b strings.Builder
	b.WriteString("(set-option :produce-models true)\n(set-logic ALL)\n")
	// only the prelude definitions this VC (transitively) mentions, in definition order
	var body strings.Builder
	for _, d := range ob.Decls {
		body.WriteString(d + "\n")
	}
	for _, f := range ob.Facts {
		body.WriteString(f + "\n")
	}
	body.WriteString(ob.Goal)
	text := body.String()
	pre := V.prelude
	if V.needPow2 {
		pre = append([]string{pow2Def()}, pre...)
	}
	need := make([]bool, len(pre))
	for changed := true; changed; {
		changed = false
		for i, l := range pre {
			if need[i] {
				continue
			}
			sym := preludeSym(l)
			if sym == "" || strings.Contains(text, sym) {
				need[i] = true
				text += "\n" + l
				changed = true
			}
		}
	}
	for i, l := range pre {
		if need[i] {
			b.WriteString(l + "\n")
		}
	}
	for _, d := range ob.Decls {
		b.WriteString(d + "\n")
	}
	for _, f := range ob.Facts {
		b.WriteString("(assert " + f + ")\n")
	}
	if ob.fc != nil {
		// definitions of canonical sequence views that this VC mentions (transitively)
		full := text
		done := map[string]bool{}
		for changed := true; changed; {
			changed = false
			for _, vd := range ob.fc.viewDefs {
				if !done[vd[0]] && strings.Contains(full, vd[0]) {
					done[vd[0]] = true
					full += vd[1]
					b.WriteString("(assert " + vd[1] + ")\n")
					changed = true
				}
			}
		}
	}
	b.WriteString("(assert (not " + ob.Goal + "))\n(check-sat)\n")
	if withModel && len(ob.Inputs) > 0 {
		var ts []string
		for _, in := range ob.Inputs {
			ts = append(ts, in.Term)
		}
		b.WriteString("(get-value (" + strings.Join(ts, " ") + "))\n")
	}
	return b.String()
}

type solverSpec struct {
	name string
	args func(file string, timeoutS int) []string
}

// every solver process runs under a 6 GB address-space limit: a runaway instantiation (recursive definitions under a
// failing obligation) must end as "unknown", not take the machine down with ten of them in parallel
func limited(args ...string) []string {
	return append([]string{"sh", "-c", `ulimit -v 6291456; exec "$0" "$@"`}, args...)
}

var solvers = []solverSpec{
	{"z3-new", func(f string, t int) []string { return limited("z3-new", fmt.Sprintf("-T:%d", t), f) }},
	{"cvc5", func(f string, t int) []string {
		return limited("cvc5", fmt.Sprintf("--tlimit=%d", t*1000), "--full-saturate-quant", f)
	}},
	{"z3", func(f string, t int) []string { return limited("z3", fmt.Sprintf("-T:%d", t), f) }},
}

func runSolver(sp solverSpec, file string, timeoutS int) (verdict string, out string, secs float64) {
	args := sp.args(file, timeoutS)
	ctx, cancel := context.WithTimeout(context.Background(), time.Duration(timeoutS+5)*time.Second)
	defer cancel()
	cmd := exec.CommandContext(ctx, args[0], args[1:]...)
	var buf bytes.Buffer
	cmd.Stdout = &buf
	cmd.Stderr = &buf
	t0 := time.Now()
	_ = cmd.Run()
	secs = time.Since(t0).Seconds()
	out = buf.String()
	first := strings.TrimSpace(strings.SplitN(strings.TrimSpace(out), "\n", 2)[0])
	switch first {
	case "unsat", "sat", "unknown":
		return first, out, secs
	}
	if strings.Contains(out, "timeout") || ctx.Err() != nil {
		return "timeout", out, secs
	}
	if strings.Contains(out, "error") && !strings.Contains(out, "failed to open file") && !strings.Contains(out, "Couldn't open file") {
		fmt.Fprintf(os.Stderr, "SOLVER-ERROR %s on %s: %s\n", sp.name, file, firstLines(out, 2))
	}
	return "error", out, secs
}

type SolveOpts struct {
	TimeoutS  int
	TwoSolver bool
	Workdir   string
	Workers   int
	KeepVCs   bool
}

// discharge runs the portfolio on every obligation.
func (V *Verifier) discharge(obls []*Obligation, opts SolveOpts) {
	os.MkdirAll(opts.Workdir, 0o755)
	var wg sync.WaitGroup
	sem := make(chan struct{}, opts.Workers)
	for i, ob := range obls {
		wg.Add(1)
		sem <- struct{}{}
		go func(i int, ob *Obligation) {
			defer wg.Done()
			defer func() { <-sem }()
			V.solveOne(i, ob, opts)
		}(i, ob)
	}
	wg.Wait()
}

func (V *Verifier) solveOne(i int, ob *Obligation, opts SolveOpts) {
	text := V.vcText(ob, false)
	ob.HasQuant = strings.Contains(text, "(forall ") || strings.Contains(text, "(exists ")
	sum := sha256.Sum256([]byte(text))
	file := filepath.Join(opts.Workdir, fmt.Sprintf("vc_%05d_%x.smt2", i, sum[:6]))
	if err := os.WriteFile(file, []byte(text), 0o644); err != nil {
		ob.Status, ob.Output = "error", err.Error()
		return
	}
	if !opts.KeepVCs {
		defer os.Remove(file)
	}
	want := ob.Expect
	if want == "sat" {
		// vacuity cover: only a refutation (unsat) is an alarm; quantified preconditions often answer unknown
		v, out, secs := runSolver(solvers[0], file, 1)
		ob.Time += secs
		ob.Output = fmt.Sprintf("[%s %.2fs] %s", solvers[0].name, secs, strings.TrimSpace(firstLines(out, 2)))
		if v == "unsat" {
			ob.Status = "failed"
			ob.Solver = solvers[0].name
			return
		}
		ob.Status = "proved"
		ob.Solver = solvers[0].name
		if v != "sat" {
			ob.Solver += "(not-refuted)"
		}
		return
	}
	var outputs []string
	type ans struct {
		name, v, out string
		secs      float64
	}
	conclusive := func(v string) bool { return v == "sat" || v == "unsat" }
	finish := func(a ans) {
		if a.v == want {
			ob.Status = "proved"
			ob.Solver = a.name
		} else {
			ob.Status = "failed"
			ob.Solver = a.name
			if a.v == "sat" {
				mfile := file + ".model.smt2"
				os.WriteFile(mfile, []byte(V.vcText(ob, true)), 0o644)
				for _, sp := range solvers {
					if sp.name == a.name {
						_, mout, _ := runSolver(sp, mfile, opts.TimeoutS)
						ob.Model = parseGetValue(mout, ob.Inputs)
						outputs = append(outputs, "model: "+firstLines(mout, 40))
					}
				}
				os.Remove(mfile)
			}
		}
		ob.Output = strings.Join(outputs, "\n")
	}
	// stage 1: the fastest solver with a short budget
	quick := 2
	if opts.TimeoutS < quick {
		quick = opts.TimeoutS
	}
	v, out, secs := runSolver(solvers[0], file, quick)
	ob.Time += secs
	outputs = append(outputs, fmt.Sprintf("[%s %.2fs] %s", solvers[0].name, secs, strings.TrimSpace(firstLines(out, 3))))
	first := ans{solvers[0].name, v, out, secs}
	if conclusive(v) && !(opts.TwoSolver && v == want && want == "unsat") {
		finish(first)
		return
	}
	// stage 1b: the same goal from the most recent facts only. Dropping hypotheses is sound for a validity goal (what
	// follows from fewer facts follows from all of them); it helps where the full context (program-wide quantified
	// invariants) drowns an argument that only needs the last few assertions.
	if want == "unsat" && !conclusive(v) && len(ob.Facts) > 60 {
		for _, hn := range [][2]int{{0, 40}, {0, 120}, {30, 120}} {
			h, n := hn[0], hn[1]
			if len(ob.Facts) <= h+n {
				break
			}
			cp := *ob
			// (the first facts are the preconditions: the third variant keeps them next to the most recent facts)
			cp.Facts = append(append([]string(nil), ob.Facts[:h]...), ob.Facts[len(ob.Facts)-n:]...)
			sfile := fmt.Sprintf("%s.first%d.last%d.smt2", file, h, n)
			if err := os.WriteFile(sfile, []byte(V.vcText(&cp, false)), 0o644); err != nil {
				break
			}
			var okNames []string
			for k, sp := range solvers {
				if k > 0 && !opts.TwoSolver {
					break
				}
				sv, sout, ssecs := runSolver(sp, sfile, 3)
				ob.Time += ssecs
				outputs = append(outputs, fmt.Sprintf("[%s on the first %d + last %d facts %.2fs] %s", sp.name, h, n, ssecs, strings.TrimSpace(firstLines(sout, 1))))
				if sv == "unsat" {
					okNames = append(okNames, sp.name)
				}
				if opts.TwoSolver && len(okNames) >= 2 {
					break
				}
			}
			if !opts.KeepVCs {
				os.Remove(sfile)
			}
			if (opts.TwoSolver && len(okNames) >= 2) || (!opts.TwoSolver && len(okNames) >= 1) {
				ob.Status = "proved"
				ob.Solver = fmt.Sprintf("%s(first-%d+last-%d-facts)", strings.Join(okNames, "+"), h, n)
				ob.Output = strings.Join(outputs, "\n")
				return
			}
		}
	}
	// stage 2: the whole portfolio in parallel with the full budget
	ch := make(chan ans, len(solvers))
	for _, sp := range solvers {
		go func(sp solverSpec) {
			v, out, secs := runSolver(sp, file, opts.TimeoutS)
			ch <- ans{sp.name, v, out, secs}
		}(sp)
	}
	var got []ans
	agree := map[string]bool{}
	if conclusive(first.v) && first.v == want {
		agree[first.name] = true
	}
	for range solvers {
		a := <-ch
		ob.Time += a.secs
		outputs = append(outputs, fmt.Sprintf("[%s %.2fs] %s", a.name, a.secs, strings.TrimSpace(firstLines(a.out, 3))))
		got = append(got, a)
		if !conclusive(a.v) {
			continue
		}
		if a.v == want {
			agree[a.name] = true
			if !opts.TwoSolver || len(agree) >= 2 || want == "sat" {
				var names []string
				for n := range agree {
					names = append(names, n)
				}
				sortStrings(names)
				ob.Status = "proved"
				ob.Solver = strings.Join(names, "+")
				ob.Output = strings.Join(outputs, "\n")
				return
			}
			continue
		}
		if len(agree) > 0 {
			ob.Status = "solver-disagreement"
			ob.Output = strings.Join(outputs, "\n")
			return
		}
		finish(a)
		return
	}
	if len(agree) > 0 {
		var names []string
		for n := range agree {
			names = append(names, n)
		}
		sortStrings(names)
		ob.Status = "proved"
		ob.Solver = strings.Join(names, "+")
		ob.Output = strings.Join(outputs, "\n")
		return
	}
	ob.Status = "unknown"
	ob.Output = strings.Join(outputs, "\n")
}

func firstLines(s string, n int) string {
	ls := strings.Split(s, "\n")
	if len(ls) > n {
		ls = ls[:n]
	}
	return strings.Join(ls, "\n")
}

// parseGetValue extracts (term value) pairs from a get-value response, positionally.
func parseGetValue(out string, inputs []InputTerm) map[string]string {
	res := map[string]string{}
	k := strings.Index(out, "((")
	if k < 0 {
		return res
	}
	s := out[k+1:]
	// split top-level pairs
	depth := 0
	start := -1
	var pairs []string
	for i, ch := range s {
		if ch == '(' {
			if depth == 0 {
				start = i
			}
			depth++
		} else if ch == ')' {
			depth--
			if depth == 0 && start >= 0 {
				pairs = append(pairs, s[start:i+1])
				start = -1
			}
			if depth < 0 {
				break
			}
		}
	}
	for i, p := range pairs {
		if i >= len(inputs) {
			break
		}
		// value is the last top-level token of the pair
		inner := strings.TrimSpace(p[1 : len(p)-1])
		val := lastSexp(inner)
		res[inputs[i].Name] = normalizeNum(val)
	}
	return res
}

func lastSexp(s string) string {
	s = strings.TrimSpace(s)
	if strings.HasSuffix(s, ")") {
		depth := 0
		for i := len(s) - 1; i >= 0; i-- {
			if s[i] == ')' {
				depth++
			} else if s[i] == '(' {
				depth--
				if depth == 0 {
					return s[i:]
				}
			}
		}
	}
	if k := strings.LastIndexAny(s, " \t\n"); k >= 0 {
		return s[k+1:]
	}
	return s
}

func normalizeNum(v string) string {
	v = strings.TrimSpace(v)
	if strings.HasPrefix(v, "(-") {
		return "-" + strings.TrimSpace(strings.Trim(v[2:], "() "))
	}
	return v
}

func (V *Verifier) ispow2Prelude() {
	if V.preludeSeen["ispow2"] {
		return
	}
	var ds []string
	for k := uint(0); k < 64; k++ {
		ds = append(ds, "(= x "+pow2(k).String()+")")
	}
	V.addPrelude("ispow2", "(define-fun g_ispow2 ((x Int)) Bool (or "+strings.Join(ds, " ")+"))")
}

// preludeSym extracts the symbol a prelude line defines or constrains ("" = always include).
func preludeSym(l string) string {
	for _, p := range []string{"(define-fun-rec ", "(define-fun ", "(declare-fun "} {
		if strings.HasPrefix(l, p) {
			rest := l[len(p):]
			if k := strings.IndexAny(rest, " ("); k > 0 {
				return rest[:k]
			}
		}
	}
	if strings.HasPrefix(l, "(assert ") {
		// axiom about an uninterpreted prelude function: include when that function is used
		if k := strings.Index(l, "(g_"); k >= 0 {
			rest := l[k+1:]
			if e := strings.IndexAny(rest, " )"); e > 0 {
				return rest[:e]
			}
		}
		// ... or about an uninterpreted constant
		if k := strings.Index(l, " g_"); k >= 0 {
			rest := l[k+1:]
			if e := strings.IndexAny(rest, " )"); e > 0 {
				return rest[:e]
			}
		}
	}
	return ""
}

func (V *Verifier) bitPrelude() {
	V.needPow2 = true
	// g_bit(w,k) = bit k of the 64-bit word w. It is left uninterpreted: everything the proofs need is supplied by the
	// per-bit facts of each update (integer images of the bit-vector lemmas in lemmas/check_bits.py).
	V.addPrelude("g_bit", "(declare-fun g_bit (Int Int) Int)",
		"(assert (forall ((w Int) (k Int)) (! (and (<= 0 (g_bit w k)) (<= (g_bit w k) 1)) :pattern ((g_bit w k)))))",
		"(assert (forall ((k Int)) (! (= (g_bit 0 k) 0) :pattern ((g_bit 0 k)))))")
	V.addPrelude("g_pc64", "(declare-fun g_pc64 (Int) Int)",
		"(assert (forall ((w Int)) (! (and (<= 0 (g_pc64 w)) (<= (g_pc64 w) 64)) :pattern ((g_pc64 w)))))",
		"(assert (= (g_pc64 0) 0))")
}
