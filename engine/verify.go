package main

import (
	"fmt"
	"go/ast"
	"go/token"
	"go/types"
	"os"
	"path/filepath"
	"sort"
	"strings"

	"golang.org/x/tools/go/packages"
)

type PkgInfo struct {
	Name  string
	Path  string
	Dir   string
	Types *types.Package
	Info  *types.Info
	Fset  *token.FileSet
	Files []*ast.File
}

type FuncInfo struct {
	Key  string
	Decl *ast.FuncDecl
	Pkg  *PkgInfo
	Obj  *types.Func
}

type Verifier struct {
	repo            string
	pkgs            []*PkgInfo
	pkgByName       map[string]*PkgInfo
	contractsByName map[string]*PkgContracts
	funcs           map[*types.Func]*FuncInfo
	funcsByKey      map[string]*FuncInfo // "pkg.Key"
	needPow2        bool
	trivial         int
	noMerge         bool
	globalIDs       map[string]int
	prelude         []string
	preludeSeen     map[string]bool
	errors          []string
	stdlibDir       string
	splitValue      string
	group           string
}

func (V *Verifier) globalID(name string) int {
	if id, ok := V.globalIDs[name]; ok {
		return id
	}
	id := len(V.globalIDs) + 1
	V.globalIDs[name] = id
	return id
}

func newVerifier(repo, stdlibDir string) *Verifier {
	return &Verifier{repo: repo, pkgByName: map[string]*PkgInfo{}, contractsByName: map[string]*PkgContracts{},
		funcs: map[*types.Func]*FuncInfo{}, funcsByKey: map[string]*FuncInfo{}, globalIDs: map[string]int{}, preludeSeen: map[string]bool{}, stdlibDir: stdlibDir}
}

func (V *Verifier) load(patterns []string) error {
	cfg := &packages.Config{
		Mode: packages.NeedName | packages.NeedSyntax | packages.NeedTypes | packages.NeedTypesInfo | packages.NeedFiles | packages.NeedImports | packages.NeedDeps,
		Dir:  V.repo,
		BuildFlags: []string{"-tags=verif"},
		Env:  append(os.Environ(), "GOFLAGS=-mod=mod", "GOPROXY=off", "GOSUMDB=off", "GOTOOLCHAIN=local"),
	}
	pkgs, err := packages.Load(cfg, patterns...)
	if err != nil {
		return err
	}
	var errs []string
	for _, p := range pkgs {
		for _, e := range p.Errors {
			errs = append(errs, e.Error())
		}
	}
	if len(errs) > 0 {
		return fmt.Errorf("package load errors: %s", strings.Join(errs, "; "))
	}
	for _, p := range pkgs {
		dir := ""
		if len(p.GoFiles) > 0 {
			dir = filepath.Dir(p.GoFiles[0])
		}
		pi := &PkgInfo{Name: p.Name, Path: p.PkgPath, Dir: dir, Types: p.Types, Info: p.TypesInfo, Fset: p.Fset, Files: p.Syntax}
		V.pkgs = append(V.pkgs, pi)
		V.pkgByName[p.Name] = pi
		for _, f := range p.Syntax {
			for _, d := range f.Decls {
				fd, ok := d.(*ast.FuncDecl)
				if !ok {
					continue
				}
				obj, _ := p.TypesInfo.Defs[fd.Name].(*types.Func)
				if obj == nil {
					continue
				}
				_, key := funcKey(obj)
				if fd.Name.Name == "init" && fd.Recv == nil {
					key = "init"
				}
				fi := &FuncInfo{Key: key, Decl: fd, Pkg: pi, Obj: obj}
				V.funcs[obj] = fi
				if key == "init" {
					// several init functions per package: init, init#2, ... in source order
					for n := 2; V.funcsByKey[p.Name+"."+key] != nil; n++ {
						key = fmt.Sprintf("init#%d", n)
					}
					fi.Key = key
				}
				V.funcsByKey[p.Name+"."+key] = fi
			}
		}
		pc, err := loadContracts(dir, p.Name)
		if err != nil {
			return err
		}
		// contracts for dependency packages whose SOURCE is verified too (not assumed): /verif/stdcheck/<pkg>.contract
		if extra := filepath.Join(filepath.Dir(V.stdlibDir), "stdcheck", p.Name+".contract"); fileExists(extra) {
			if err := parseContractFile(extra, p.Name, pc); err != nil {
				return err
			}
		}
		V.contractsByName[p.Name] = pc
	}
	// assumed contracts of dependencies
	std := newPkgContracts("stdlib")
	files, _ := filepath.Glob(filepath.Join(V.stdlibDir, "*.contract"))
	sort.Strings(files)
	for _, f := range files {
		if err := parseContractFile(f, "stdlib", std); err != nil {
			return err
		}
	}
	for _, fct := range std.Funcs {
		fct.Trusted = true
	}
	V.contractsByName["stdlib"] = std
	return nil
}

func (V *Verifier) funcInfo(fn *types.Func) *FuncInfo { return V.funcs[fn.Origin()] }

func (V *Verifier) contractFor(fn *types.Func) *FuncContract {
	pkg, key := funcKey(fn)
	if pc := V.contractsByName[pkg]; pc != nil {
		if c := pc.Funcs[key]; c != nil {
			return c
		}
	}
	if std := V.contractsByName["stdlib"]; std != nil {
		if c := std.Funcs[pkg+"."+key]; c != nil {
			return c
		}
	}
	return nil
}

// ---------- per-function verification ----------

type FuncResult struct {
	Name        string
	Obls        []*Obligation
	Err         string
	Assumptions []string
	Inlined     []string
	Callees     []string
	Paths       int
	WeakFrames  []string
}

func (V *Verifier) newFuncCtx(fi *FuncInfo, fct *FuncContract) *FuncCtx {
	fc := &FuncCtx{V: V, Pkg: fi.Pkg, Name: fi.Pkg.Name + "." + fi.Key, Decl: fi.Decl, Contract: fct, curContract: fct,
		declared: map[string]bool{}, oblCount: map[string]int{}, loopOrd: map[ast.Stmt]int{}, callOrd: map[*ast.CallExpr]int{}, heapSorts: map[string]string{}}
	n, c := 0, 0
	fc.promote = map[types.Object]bool{}
	ast.Inspect(fi.Decl, func(x ast.Node) bool {
		switch s := x.(type) {
		case *ast.SliceExpr:
			if id, ok := ast.Unparen(s.X).(*ast.Ident); ok {
				if obj := fi.Pkg.Info.ObjectOf(id); obj != nil {
					if _, isArr := obj.Type().Underlying().(*types.Array); isArr {
						fc.promote[obj] = true
					}
				}
			}
		case *ast.ForStmt:
			n++
			fc.loopOrd[s] = n
		case *ast.RangeStmt:
			n++
			fc.loopOrd[s] = n
		case *ast.CallExpr:
			c++
			fc.callOrd[s] = c
		}
		return true
	})
	fc.sig = fi.Obj.Type().(*types.Signature)
	return fc
}

func (V *Verifier) verifyFunc(fi *FuncInfo, fct *FuncContract) (res *FuncResult) {
	if tags := contractTags(fct); len(tags) > 0 && V.group == "" {
		// proof groups: the function is verified once per group; clauses of other groups are left out,
		// untagged clauses take part in every group
		all := &FuncResult{Name: fi.Pkg.Name + "." + fi.Key}
		am := map[string]bool{}
		for _, tg := range tags {
			V.group = tg
			r := V.verifyFunc(fi, filterContract(fct, tg))
			V.group = ""
			if r.Err != "" {
				all.Err = r.Err
				return all
			}
			for _, ob := range r.Obls {
				ob.Name += "{" + tg + "}"
			}
			all.Obls = append(all.Obls, r.Obls...)
			all.Paths += r.Paths
			for _, a := range r.Assumptions {
				am[a] = true
			}
			all.Inlined, all.Callees, all.WeakFrames = r.Inlined, r.Callees, r.WeakFrames
		}
		for a := range am {
			all.Assumptions = append(all.Assumptions, a)
		}
		sort.Strings(all.Assumptions)
		return all
	}
	if fct.Split == nil {
		return V.verifyFuncMode(fi, fct, 0)
	}
	// case split: the function is verified once per value of the split expression (complete when the
	// precondition confines the expression to these values, which is itself an obligation)
	all := &FuncResult{Name: fi.Pkg.Name + "." + fi.Key}
	am := map[string]bool{}
	vals := append([]string(nil), fct.Split.Values...)
	if fct.Split.Else {
		vals = append(vals, "else")
	}
	for _, v := range vals {
		V.splitValue = v
		r := V.verifyFuncMode(fi, fct, 0)
		V.splitValue = ""
		if r.Err != "" {
			all.Err = r.Err
			return all
		}
		for _, ob := range r.Obls {
			ob.Name += "[" + fct.Split.Src + "=" + v + "]"
		}
		all.Obls = append(all.Obls, r.Obls...)
		all.Paths += r.Paths
		for _, a := range r.Assumptions {
			am[a] = true
		}
		all.Inlined, all.Callees, all.WeakFrames = r.Inlined, r.Callees, r.WeakFrames
	}
	// completeness of the split: outside the listed values the precondition is unsatisfiable (not needed with an else case)
	if !fct.Split.Else {
		V.splitValue = "*"
		r := V.verifyFuncMode(fi, fct, 0)
		V.splitValue = ""
		for _, ob := range r.Obls {
			if ob.Kind == "split-complete" {
				all.Obls = append(all.Obls, ob)
			}
		}
	}
	for a := range am {
		all.Assumptions = append(all.Assumptions, a)
	}
	sort.Strings(all.Assumptions)
	return all
}

// verifyFuncMode: ceUnroll > 0 selects counterexample mode (loops unrolled ceUnroll times, inputs small, no invariants used).
func (V *Verifier) verifyFuncMode(fi *FuncInfo, fct *FuncContract, ceUnroll int) (res *FuncResult) {
	fc := V.newFuncCtx(fi, fct)
	fc.ceUnroll = ceUnroll
	res = &FuncResult{Name: fc.Name}
	defer func() {
		if r := recover(); r != nil {
			if e, ok := r.(vcErr); ok {
				res.Err = string(e)
				res.Obls = fc.obls
				return
			}
			panic(r)
		}
	}()
	st := &State{fc: fc, vars: map[types.Object]Val{}, ghost: map[string]Val{}, heap: map[string]string{}, locks: map[string]int{}}
	fc.declare("g_alloc0", "Int")
	st.alloc = "g_alloc0"
	st.addFact(sCmp("<=", "1", "g_alloc0"))
	info := fi.Pkg.Info
	names := map[string]Val{}
	// receiver
	if fi.Decl.Recv != nil && len(fi.Decl.Recv.List) == 1 && len(fi.Decl.Recv.List[0].Names) == 1 {
		id := fi.Decl.Recv.List[0].Names[0]
		if obj, ok := info.Defs[id].(*types.Var); ok && obj != nil {
			v := st.freshVal(id.Name, obj.Type())
			if v.K == KInt && classify(obj.Type()) == tcPtr {
				st.addFact(sNot(sEq(v.S, "0")))
				fc.noteAssumption("method receivers are non-nil")
			}
			st.vars[obj] = v
			fc.recv = obj
			fc.addInputs(id.Name, v)
		}
	}
	if fct.InstFunc != nil {
		// instantiated contract f@g: unify the function-typed parameter with g's signature to learn the type arguments
		for _, p := range paramObjs(info, fi.Decl.Type) {
			if p != nil && p.Name() == fct.InstParam {
				st.tsub = map[string]types.Type{}
				unifyTypes(p.Type(), fct.InstFunc.Type(), st.tsub)
			}
		}
	}
	for _, p := range paramObjs(info, fi.Decl.Type) {
		if p == nil {
			continue
		}
		v := st.freshVal(p.Name(), st.subst(p.Type()))
		if fct.InstParam == p.Name() && fct.InstFunc != nil {
			v = Val{K: KFunc, T: fct.InstFunc.Type(), Obj: fct.InstFunc}
		}
		st.vars[p] = v
		fc.addInputs(p.Name(), v)
		if ceUnroll > 0 && (v.K == KSlice || v.K == KString) {
			st.addFact(sCmp("<=", v.length(), "10"))
			if v.K == KSlice {
				st.addFact(sAnd(sCmp("<=", v.capa(), "12"), sCmp("<=", v.off(), "4")))
			}
		}
	}
	// typing facts for the fields of structs that parameters point to (one level)
	for _, vo := range sortedObjs(st.vars) {
		v := st.vars[vo]
		if v.K == KInt && v.T != nil {
			if s, structT := structOf(v.T); s != nil {
				if _, isPtr := v.T.Underlying().(*types.Pointer); isPtr {
					for i := 0; i < s.NumFields(); i++ {
						fv := st.loadField(nil, v.S, structT, s.Field(i).Name())
						for _, f := range st.typeFacts(fv) {
							st.addFact(sImp(sNot(sEq(v.S, "0")), f))
						}
					}
				}
			}
		}
	}
	fc.results = resultObjs(info, fi.Decl.Type)
	for _, r := range fc.results {
		st.vars[r] = st.zeroVal(r.Type())
	}
	_ = names
	isInit := fi.Decl.Name.Name == "init" && fi.Decl.Recv == nil
	bodyPos := fi.Decl.Body.Lbrace + 1
	fc.bodyPos = bodyPos
	// global invariants hold on entry (except in init, which establishes them)
	pc := V.contractsByName[fi.Pkg.Name]
	if !isInit && pc != nil {
		var gnames []string
		for g := range pc.Globals {
			gnames = append(gnames, g)
		}
		sort.Strings(gnames)
		used := V.globalsUsed(fi, 2)
		for _, n := range contractIdents(fct) {
			used[n] = true
		}
		// specs used by the contract may mention globals too (one level)
		for _, n := range contractIdents(fct) {
			if sf := pc.Specs[n]; sf != nil && sf.Body != nil {
				collectIdents(sf.Body, used)
			}
		}
		for _, g := range gnames {
			if !used[g] {
				continue // relevance: invariants of globals this function cannot reach are not assumed
			}
			for _, inv := range pc.Globals[g].Invariants {
				env := fc.newSpecEnv(st, nil, nil, bodyPos, fc.Name+"/global:"+g)
				st.addFact(env.evalBool(inv.Expr))
			}
		}
	}
	for _, gp := range fct.GhostParams {
		st.ghost[gp] = vInt(fc.fresh("gp_"+gp, "Int"), intType)
	}
	st.lockEntry(fct)
	fc.entrySnap = st.snapshot(nil)
	if fc.isRG() {
		st.rgAssumeInv(bodyPos, "entry")
		fc.noteAssumption("rely-guarantee mode: the rely relations of this function are reflexive and transitive and are implied by the guarantee of every other goroutine's atomic steps (same code, same clauses; argued in DESIGN.md); sync/atomic operations are sequentially consistent atomic steps")
	}
	for _, r := range fct.Requires {
		env := fc.newSpecEnv(st, nil, nil, bodyPos, fc.Name+"/requires")
		st.addFact(env.evalBool(r.Expr))
	}
	for _, u := range fct.Uses {
		st.assumeLemma(u, bodyPos)
	}
	if fct.Split != nil && V.splitValue != "" {
		env := fc.newSpecEnv(st, nil, nil, bodyPos, fc.Name+"/split")
		e := env.eval(fct.Split.Expr).S
		if V.splitValue == "*" {
			var ds []string
			for _, v := range fct.Split.Values {
				ds = append(ds, sEq(e, v))
			}
			st.oblige("split-complete", fct.Split.Src, sOr(ds...), token.NoPos)
			res.Obls = fc.obls
			return res
		}
		if V.splitValue == "else" {
			var ds []string
			for _, v := range fct.Split.Values {
				ds = append(ds, sNot(sEq(e, sIntLit(v))))
			}
			st.addFact(sAnd(ds...))
		} else {
			st.addFact(sEq(e, sIntLit(V.splitValue)))
		}
	}
	// vacuity cover: the precondition must be satisfiable
	cover := &Obligation{Name: fc.Name + "/pre-sat", Kind: "pre-sat", Func: fc.Name, Decls: append([]string(nil), fc.decls...), Facts: st.facts.slice(), Goal: "false", Expect: "sat"}
	fc.obls = append(fc.obls, cover)
	for _, tn := range fct.Traced {
		st.ghost["tr_"+tn] = vRaw(fc.fresh("tr_"+tn, "(Array Int Int)"), "(Array Int Int)")
		st.ghost["ntr_"+tn] = vInt("0", intType)
	}
	fc.entry = st.clone()
	for _, g := range fct.Ghosts {
		st.execGhost(g, bodyPos)
	}
	st.runAnchor("begin", bodyPos)
	if isInit && pc != nil {
		// package-level variable initialisers run before init(): executed here for the globals that have invariants
		for _, f := range fi.Pkg.Files {
			for _, d := range f.Decls {
				gd, ok := d.(*ast.GenDecl)
				if !ok || gd.Tok != token.VAR {
					continue
				}
				for _, sp := range gd.Specs {
					vs := sp.(*ast.ValueSpec)
					if len(vs.Values) != len(vs.Names) {
						continue
					}
					for i, name := range vs.Names {
						if pc.Globals[name.Name] == nil {
							continue
						}
						if vo, ok := fi.Pkg.Info.Defs[name].(*types.Var); ok {
							st.assignGlobal(vo, st.coerce(st.eval(vs.Values[i]), vo.Type()))
						}
					}
				}
			}
		}
	}
	outs := st.execBlock(fi.Decl.Body.List)
	fc.paths = len(outs)
	for _, o := range outs {
		s := o.st
		switch o.kind {
		case oNormal, oReturn:
			vals := o.vals
			if o.kind == oNormal {
				vals = nil
				for _, r := range fc.results {
					vals = append(vals, s.vars[r])
				}
			}
			if len(s.defers) > 0 {
				s.runDefers()
				// named results may have been changed by deferred closures; re-read them
				if len(fc.results) > 0 && o.kind == oNormal {
					vals = nil
					for _, r := range fc.results {
						vals = append(vals, s.vars[r])
					}
				}
			}
			V.checkExit(fc, s, vals, fi, isInit)
		case oPanic:
			if len(fct.PanicsIf) == 0 {
				s.oblige("panic-unreachable", "", "false", token.NoPos)
			} else {
				var ds []string
				for _, p := range fct.PanicsIf {
					env := fc.newSpecEnv(s, nil, fc.entrySnap, bodyPos, fc.Name+"/panics_if")
					ds = append(ds, env.inOld().evalBool(p.Expr))
				}
				s.oblige("panic-allowed", "", sOr(ds...), token.NoPos)
			}
		default:
			res.Err = "break/continue escapes function body"
		}
	}
	if ceUnroll == 0 && res.Err == "" {
		// every anchor the contract names must have been reached by the symbolic execution: an anchor whose call or
		// loop no longer exists in the code would otherwise drop its assertions and ghost updates without a trace
		var missing []string
		for a := range fct.Anchors {
			if !fc.anchorsHit[a] {
				missing = append(missing, a)
			}
		}
		if len(missing) > 0 {
			sort.Strings(missing)
			res.Err = fmt.Sprintf("contract anchors never reached in the code: %s (the call/loop ordinal they name no longer exists, or lies on no path)", strings.Join(missing, ", "))
		}
	}
	res.Obls = fc.obls
	res.Paths = fc.paths
	for a := range fc.assumptions {
		res.Assumptions = append(res.Assumptions, a)
	}
	sort.Strings(res.Assumptions)
	for a := range fc.inlined {
		res.Inlined = append(res.Inlined, a)
	}
	sort.Strings(res.Inlined)
	for a := range fc.callees {
		res.Callees = append(res.Callees, a)
	}
	sort.Strings(res.Callees)
	for a := range fc.weakFrames {
		res.WeakFrames = append(res.WeakFrames, a)
	}
	sort.Strings(res.WeakFrames)
	return res
}

func (fc *FuncCtx) addInputs(name string, v Val) {
	switch v.K {
	case KInt:
		fc.inputs = append(fc.inputs, InputTerm{Name: name, Term: v.S, Kind: "int"})
	case KBool:
		fc.inputs = append(fc.inputs, InputTerm{Name: name, Term: v.S, Kind: "bool"})
	case KString:
		fc.inputs = append(fc.inputs, InputTerm{Name: name + ".len", Term: v.length(), Kind: "len"})
		for i := 0; i < 12; i++ {
			fc.inputs = append(fc.inputs, InputTerm{Name: fmt.Sprintf("%s[%d]", name, i), Term: v.at(sInt(int64(i))), Kind: "elem"})
		}
	case KSlice:
		fc.inputArrs = append(fc.inputArrs, v.arr())
		fc.inputs = append(fc.inputs, InputTerm{Name: name + ".len", Term: v.length(), Kind: "len"})
		fc.inputs = append(fc.inputs, InputTerm{Name: name + ".cap", Term: v.capa(), Kind: "len"})
		fc.inputs = append(fc.inputs, InputTerm{Name: name + ".arr", Term: v.arr(), Kind: "int"})
		fc.inputs = append(fc.inputs, InputTerm{Name: name + ".off", Term: v.off(), Kind: "int"})
		et := sliceElemType(v.T)
		cs := flatComps(et)
		if len(cs) == 1 && cs[0].Sort == "Int" {
			h := "H_" + sanitize(elemHeapName(et, cs[0])) + "_0"
			fc.declare(h, elemSort(cs[0]))
			fc.heapSorts[elemHeapName(et, cs[0])] = elemSort(cs[0])
			for i := 0; i < 12; i++ {
				fc.inputs = append(fc.inputs, InputTerm{Name: fmt.Sprintf("%s[%d]", name, i), Term: sSel(sSel(h, v.arr()), sAdd(v.off(), sInt(int64(i)))), Kind: "elem"})
			}
		}
	case KStruct:
		for i, s := range v.Sub {
			fc.addInputs(fmt.Sprintf("%s.%d", name, i), s)
		}
	}
}

func (V *Verifier) checkExit(fc *FuncCtx, s *State, vals []Val, fi *FuncInfo, isInit bool) {
	fct := fc.Contract
	endPos := fi.Decl.Body.Rbrace
	names := map[string]Val{}
	sig := fc.sig
	for i, v := range vals {
		names[fmt.Sprintf("result%d", i+1)] = v
		if i == 0 {
			names["result"] = v
		}
		if i < sig.Results().Len() && sig.Results().At(i).Name() != "" && sig.Results().At(i).Name() != "_" {
			names[sig.Results().At(i).Name()] = v
		}
	}
	// (the 'end' anchor sees the results, but parameters and locals with their current values)
	fc.endNames = map[string]Val{}
	for k, v := range names {
		fc.endNames[k] = v
	}
	// parameters in postconditions denote their entry values (Go passes by value)
	for obj, v := range fc.entrySnap.vars {
		if _, shadow := names[obj.Name()]; !shadow {
			if isParamOf(obj, fi) {
				names[obj.Name()] = v
			}
		}
	}
	s.runAnchor("end", endPos)
	fc.endNames = nil
	if fct.NoAlloc {
		s.oblige("post", "noalloc", sEq(s.alloc, fc.entryAlloc()), endPos)
	}
	if fct.Allocates > 0 {
		s.oblige("post", "allocates", sEq(s.alloc, sAdd(fc.entryAlloc(), sInt(int64(fct.Allocates)))), endPos)
	}
	for i, e := range fct.Ensures {
		env := fc.newSpecEnv(s, names, fc.entrySnap, fi.Decl.Body.Lbrace+1, fc.Name+"/ensures")
		s.oblige("post", fmt.Sprintf("ensures%d", i+1), env.evalBool(e.Expr), endPos)
	}
	for i, p := range fct.PanicsIf {
		env := fc.newSpecEnv(s, names, fc.entrySnap, fi.Decl.Body.Lbrace+1, fc.Name+"/panics_if")
		s.oblige("post", fmt.Sprintf("must-panic%d", i+1), sNot(env.inOld().evalBool(p.Expr)), endPos)
	}
	if isInit {
		pc := V.contractsByName[fi.Pkg.Name]
		var gnames []string
		for g := range pc.Globals {
			gnames = append(gnames, g)
		}
		sort.Strings(gnames)
		for _, g := range gnames {
			for i, inv := range pc.Globals[g].Invariants {
				env := fc.newSpecEnv(s, nil, nil, fi.Decl.Body.Lbrace+1, fc.Name+"/global:"+g)
				s.oblige("post", fmt.Sprintf("global(%s)/inv%d", g, i+1), env.evalBool(inv.Expr), endPos)
			}
		}
	} else {
		for k := range s.ghost {
			if strings.HasPrefix(k, "$globalw$") {
				s.oblige("frame", "global-write("+strings.TrimPrefix(k, "$globalw$")+")", "false", endPos)
			}
		}
	}
	s.checkLockExit(fct, endPos)
	// frame: everything outside the modifies footprint is unchanged
	env := fc.newSpecEnv(s, names, fc.entrySnap, fi.Decl.Body.Lbrace+1, fc.Name+"/modifies").inOld()
	if fc.isRG() {
		return // shared state changes under interference: frames are expressed by the guarantee clauses instead
	}
	fp := s.footprints(env, fct.Modifies)
	otherGroup := map[string]bool{}
	if fct.Full != nil {
		// heaps whose footprint is declared by a modifies clause of another proof group are framed in that group only
		var other []*Clause
		for _, m := range fct.Full.Modifies {
			if m.Tag != "" && m.Tag != V.group {
				other = append(other, m)
			}
		}
		for n := range s.footprints(env, other) {
			otherGroup[n] = true
		}
	}
	var hn []string
	for n := range s.heap {
		hn = append(hn, n)
	}
	sort.Strings(hn)
	for _, n := range hn {
		cur := s.heap[n]
		init := "H_" + sanitize(n) + "_0"
		if cur == init || otherGroup[n] {
			continue
		}
		srt := fc.heapSorts[n]
		two := strings.HasPrefix(srt, "(Array Int (Array Int")
		var in []string
		if h := fp[n]; h != nil {
			all := false
			for _, t := range h.targets {
				if t.kind == "allelems" {
					all = true
				}
			}
			if all {
				continue // the whole element heap is in the footprint
			}
			for _, t := range h.targets {
				if two {
					in = append(in, sAnd(sEq("g_a", t.arr), sCmp("<=", t.lo, "g_i"), sCmp("<", "g_i", t.hi)))
				} else if t.cond != "" {
					in = append(in, t.cond)
				} else {
					in = append(in, sEq("g_a", t.ref))
				}
			}
		}
		fc.declare(init, srt)
		if two {
			// (1) rows of arrays outside the footprint are unchanged
			var arrs []string
			seenA := map[string]bool{}
			if h := fp[n]; h != nil {
				for _, t := range h.targets {
					if !seenA[t.arr] {
						seenA[t.arr] = true
						arrs = append(arrs, t.arr)
					}
				}
			}
			var notIn []string
			for _, a := range arrs {
				notIn = append(notIn, sNot(sEq("g_a", a)))
			}
			s.oblige("frame", n+"/other-arrays", fmt.Sprintf("(forall ((g_a Int)) (=> (and (<= 0 g_a) (< g_a g_alloc0) %s) (= (select %s g_a) (select %s g_a))))", sAnd(notIn...), cur, init), endPos)
			// (2) inside a footprint array, cells outside the declared ranges are unchanged (index relative to the range start)
			for k, a := range arrs {
				whole := false
				for _, t := range fp[n].targets {
					if t.arr == a && t.kind == "maprow" {
						whole = true
					}
				}
				if whole {
					continue // the whole row (map object) is in the footprint
				}
				var in []string
				base := ""
				for _, t := range fp[n].targets {
					if base == "" && t.arr == a {
						base = t.lo
					}
				}
				idx := sAdd(base, "g_r")
				for _, t := range fp[n].targets {
					in = append(in, sAnd(sEq(a, t.arr), sCmp("<=", t.lo, idx), sCmp("<", idx, t.hi)))
				}
				s.oblige("frame", fmt.Sprintf("%s/outside-range%d", n, k+1), fmt.Sprintf("(forall ((g_r Int)) (=> (and (< %s g_alloc0) (not %s)) (= (select (select %s %s) %s) (select (select %s %s) %s))))", a, sOr(in...), cur, a, idx, init, a, idx), endPos)
			}
			continue
		}
		var goal string
		goal = fmt.Sprintf("(forall ((g_a Int)) (=> (and (<= 0 g_a) (< g_a g_alloc0) (not %s)) (= (select %s g_a) (select %s g_a))))", sOr(in...), cur, init)
		s.oblige("frame", n, goal, endPos)
	}
}

func isParamOf(obj types.Object, fi *FuncInfo) bool {
	for _, p := range paramObjs(fi.Pkg.Info, fi.Decl.Type) {
		if p == obj {
			return true
		}
	}
	if fi.Decl.Recv != nil && len(fi.Decl.Recv.List) == 1 && len(fi.Decl.Recv.List[0].Names) == 1 {
		if fi.Pkg.Info.Defs[fi.Decl.Recv.List[0].Names[0]] == obj {
			return true
		}
	}
	return false
}

type hvSet struct {
	sort    string
	targets []target
	two     bool
}

func (st *State) footprints(env *SpecEnv, mods []*Clause) map[string]*hvSet {
	heaps := map[string]*hvSet{}
	add := func(name, sort string, two bool, t target) {
		h := heaps[name]
		if h == nil {
			h = &hvSet{sort: sort, two: two}
			heaps[name] = h
		}
		h.targets = append(h.targets, t)
	}
	var vt []types.Object
	for _, m := range mods {
		for _, e := range m.List {
			st.resolveTarget(env, e, add, &vt)
		}
	}
	return heaps
}

// ---------- anchors / ghost statements ----------

func (st *State) runAnchor(anchor string, pos token.Pos) {
	fc := st.fc
	if fc.curContract == nil || fc.inlineDepth > 0 {
		return
	}
	a := fc.curContract.Anchors[anchor]
	if a != nil {
		if fc.anchorsHit == nil {
			fc.anchorsHit = map[string]bool{}
		}
		fc.anchorsHit[anchor] = true
	}
	if a == nil {
		if strings.HasPrefix(anchor, "after-call") && fc.isRG() {
			st.rgCheckStep(anchor, pos)
		}
		return
	}
	defer func() {
		if strings.HasPrefix(anchor, "after-call") && fc.isRG() {
			st.rgCheckStep(anchor, pos)
		}
	}()
	for i, c := range a.Clauses {
		if !st.clauseInScope(c, pos, anchor) {
			continue // mentions a local that does not exist on this path (e.g. an early return before its declaration)
		}
		switch c.Kind {
		case "assert":
			env := fc.newSpecEnv(st, fc.endNames, fc.entrySnap, pos, fc.Name+"/at "+anchor)
			g := env.evalBool(c.Expr)
			st.oblige("assert", fmt.Sprintf("%s/%d", anchor, i+1), g, pos)
			st.assume(g)
		case "ghost":
			st.execGhost(c, pos)
		case "apply":
			st.applyLemma(c, anchor, i, pos)
		}
	}
}

// applyLemma instantiates a lemma with explicit arguments: requires are obligations, ensures are assumed.
func (st *State) applyLemma(c *Clause, anchor string, idx int, pos token.Pos) {
	fc := st.fc
	name := c.Expr.Text
	var lem *FuncContract
	for _, pc := range fc.V.contractsByName {
		if l := pc.Funcs[name]; l != nil && l.Lemma {
			lem = l
		}
	}
	if lem == nil {
		panic(vcErr("apply: unknown lemma " + name))
	}
	if len(c.Expr.Args) != len(lem.LemmaPars) {
		panic(vcErr("apply " + name + ": wrong number of arguments"))
	}
	env := fc.newSpecEnv(st, nil, fc.entrySnap, pos, fc.Name+"/apply "+name)
	bind := map[string]Val{}
	for i, p := range lem.LemmaPars {
		bind[p.Name] = env.eval(c.Expr.Args[i])
	}
	q := 3000
	le := &SpecEnv{st: st, names: bind, pkg: fc.V.pkgByName[lem.Pkg], what: "lemma " + name, qcount: &q}
	for i, r := range lem.Requires {
		st.oblige("lemma-pre", fmt.Sprintf("%s/%d:%s/requires%d", anchor, idx+1, name, i+1), le.evalBool(r.Expr), pos)
	}
	for _, e := range lem.Ensures {
		st.assume(le.evalBool(e.Expr))
	}
	fc.noteCallee("lemma " + name)
}

func (st *State) execGhost(c *Clause, pos token.Pos) {
	fc := st.fc
	if c.Kind != "ghost" {
		return
	}
	env := fc.newSpecEnv(st, fc.endNames, fc.entrySnap, pos, fc.Name+"/ghost "+c.Name)
	v := env.eval(c.Expr)
	if strings.HasPrefix(c.Name, "all ") {
		f := strings.Split(strings.TrimSpace(strings.TrimPrefix(c.Name, "all ")), ".")
		if len(f) != 2 || v.K != KRaw {
			panic(vcErr("ghost all T.f = <sequence>: " + c.Name))
		}
		var structT types.Type
		if o := st.pkg().Types.Scope().Lookup(f[0]); o != nil {
			structT = o.Type()
		}
		gh := ""
		if structT != nil {
			gh = ghostFieldHeap(structT, f[1])
		}
		if gh == "" || ghostFieldSort(structT, f[1]) != "(Array Int Int)" {
			panic(vcErr("ghost all: no integer ghost field " + c.Name))
		}
		st.heapGet(gh, "(Array Int Int)")
		st.noteUnknownWrite(gh)
		st.heapSet(gh, "(Array Int Int)", v.S)
		return
	}
	if len(c.List) == 1 {
		// ghost obj.field = e
		base := env.eval(c.List[0].Args[0])
		if base.K != KInt || base.T == nil {
			panic(vcErr("ghost field assignment: " + c.Name + " is not a field of a reference"))
		}
		_, structT := structOf(base.T)
		gh := ""
		if structT != nil {
			gh = ghostFieldHeap(structT, c.List[0].Text)
		}
		if gh == "" {
			panic(vcErr("ghost field assignment: no ghost field " + c.Name))
		}
		val := v.S
		if v.K == KNil {
			val = "0"
		}
		srt := ghostFieldSort(structT, c.List[0].Text)
		h := st.heapGet(gh, srt)
		st.noteWrite(gh, base.S)
		st.heapSet(gh, srt, sStore(h, base.S, val), base.S)
		return
	}
	switch v.K {
	case KBool:
		v.S = st.define("ghost_"+c.Name, "Bool", v.S)
	case KInt:
		v.S = st.define("ghost_"+c.Name, "Int", v.S)
	case KRaw:
		// sequence-valued ghosts get a name too: selects over an inlined ite/store term are poor triggers
		if strings.HasPrefix(v.S, "(") && v.Sort != "" {
			v.S = st.define("ghost_"+c.Name, v.Sort, v.S)
		}
	}
	st.ghost[c.Name] = v
	if fc.rec != nil {
		fc.rec.ghosts[c.Name] = true
	}
}

// assumeLemma adds a proved lemma's statement (universally quantified over its parameters).
func (st *State) assumeLemma(name string, pos token.Pos) {
	fc := st.fc
	var lem *FuncContract
	for _, pc := range fc.V.contractsByName {
		if c := pc.Funcs[name]; c != nil && c.Lemma {
			lem = c
		}
	}
	if lem == nil {
		panic(vcErr("unknown lemma " + name))
	}
	bind := map[string]Val{}
	var decl []string
	for _, p := range lem.LemmaPars {
		srt := specSort(p.Type)
		if srt == "" {
			panic(vcErr("lemma " + name + ": unsupported parameter type " + p.Type))
		}
		v := "g_l_" + p.Name
		decl = append(decl, "("+v+" "+srt+")")
		switch srt {
		case "Bool":
			bind[p.Name] = vBool(v)
		case "Int":
			bind[p.Name] = vInt(v, nil)
		default:
			bind[p.Name] = vRaw(v, srt)
		}
	}
	q := 0
	env := &SpecEnv{st: st, names: bind, pkg: fc.V.pkgByName[lem.Pkg], what: "lemma " + name, qcount: &q}
	var pre, post []string
	for _, r := range lem.Requires {
		pre = append(pre, env.evalBool(r.Expr))
	}
	for _, e := range lem.Ensures {
		post = append(post, env.evalBool(e.Expr))
	}
	body := sImp(sAnd(pre...), sAnd(post...))
	if len(decl) > 0 {
		body = fmt.Sprintf("(forall (%s) %s)", strings.Join(decl, " "), body)
	}
	st.addFact(body)
	fc.noteCallee("lemma " + name)
}

// verifyLemma proves a bodiless lemma directly (the solver must find it; used for bit-level facts and arithmetic identities).
func (V *Verifier) verifyLemma(pkg string, lem *FuncContract) *FuncResult {
	res := &FuncResult{Name: pkg + "." + lem.Key}
	fc := &FuncCtx{V: V, Pkg: V.pkgByName[pkg], Name: pkg + "." + lem.Key, Contract: lem, curContract: lem,
		declared: map[string]bool{}, oblCount: map[string]int{}, heapSorts: map[string]string{}}
	if fc.Pkg == nil {
		for _, p := range V.pkgs {
			fc.Pkg = p
			break
		}
	}
	defer func() {
		if r := recover(); r != nil {
			if e, ok := r.(vcErr); ok {
				res.Err = string(e)
				return
			}
			panic(r)
		}
	}()
	st := &State{fc: fc, vars: map[types.Object]Val{}, ghost: map[string]Val{}, heap: map[string]string{}, locks: map[string]int{}}
	fc.declare("g_alloc0", "Int")
	st.alloc = "g_alloc0"
	bind := map[string]Val{}
	for _, p := range lem.LemmaPars {
		srt := specSort(p.Type)
		if srt == "" {
			res.Err = "unsupported lemma parameter type " + p.Type
			return res
		}
		c := fc.fresh(p.Name, srt)
		switch srt {
		case "Bool":
			bind[p.Name] = vBool(c)
		case "Int":
			bind[p.Name] = vInt(c, nil)
			if t := goTypeByName(p.Type); t != nil {
				st.addFact(inRange(c, t))
			}
		default:
			bind[p.Name] = vRaw(c, srt)
		}
	}
	q := 0
	env := &SpecEnv{st: st, names: bind, pkg: fc.Pkg, what: "lemma " + lem.Key, qcount: &q}
	for _, r := range lem.Requires {
		st.addFact(env.evalBool(r.Expr))
	}
	for _, u := range lem.Uses {
		st.assumeLemma(u, token.NoPos)
	}
	if lem.Decreases != nil {
		// well-founded induction: the statement may be used for all arguments with a smaller non-negative measure
		m0 := env.eval(lem.Decreases.Expr).S
		bind2 := map[string]Val{}
		var decl []string
		for _, p := range lem.LemmaPars {
			srt := specSort(p.Type)
			v := "g_ih_" + p.Name
			decl = append(decl, "("+v+" "+srt+")")
			switch srt {
			case "Bool":
				bind2[p.Name] = vBool(v)
			case "Int":
				bind2[p.Name] = vInt(v, nil)
			default:
				bind2[p.Name] = vRaw(v, srt)
			}
		}
		q2 := 1000
		env2 := &SpecEnv{st: st, names: bind2, pkg: fc.Pkg, what: "lemma " + lem.Key + " (IH)", qcount: &q2}
		m1 := env2.eval(lem.Decreases.Expr).S
		var pre, post []string
		for _, r := range lem.Requires {
			pre = append(pre, env2.evalBool(r.Expr))
		}
		for _, e := range lem.Ensures {
			post = append(post, env2.evalBool(e.Expr))
		}
		ih := fmt.Sprintf("(forall (%s) %s)", strings.Join(decl, " "), sImp(sAnd(append(pre, sCmp("<=", "0", m1), sCmp("<", m1, m0))...), sAnd(post...)))
		if len(lem.IH) == 0 {
			st.addFact(ih)
		}
		// explicit instances of the induction hypothesis (when given, the universal form is omitted: smaller queries)
		for _, ihc := range lem.IH {
			if len(ihc.List) != len(lem.LemmaPars) {
				res.Err = "ih needs one expression per lemma parameter"
				return res
			}
			b3 := map[string]Val{}
			for i, p := range lem.LemmaPars {
				b3[p.Name] = env.eval(ihc.List[i])
			}
			q3 := 2000
			env3 := &SpecEnv{st: st, names: b3, pkg: fc.Pkg, what: "lemma " + lem.Key + " (IH instance)", qcount: &q3}
			mi := env3.eval(lem.Decreases.Expr).S
			var pre3, post3 []string
			for _, r := range lem.Requires {
				pre3 = append(pre3, env3.evalBool(r.Expr))
			}
			for _, e := range lem.Ensures {
				post3 = append(post3, env3.evalBool(e.Expr))
			}
			st.addFact(sImp(sAnd(append(pre3, sCmp("<=", "0", mi), sCmp("<", mi, m0))...), sAnd(post3...)))
		}
		st.addFact(sCmp("<=", "0", m0)) // cases with a negative measure must be covered by a separate lemma or be vacuous
		// the negative-measure case is a separate obligation
		for i, e := range lem.Ensures {
			neg := st.clone()
			neg.facts = neg.facts.prev.prev.push(sCmp("<", m0, "0"))
			neg.oblige("lemma", fmt.Sprintf("ensures%d/negative-measure", i+1), env.evalBool(e.Expr), token.NoPos)
		}
	}
	for i, e := range lem.Ensures {
		st.oblige("lemma", fmt.Sprintf("ensures%d", i+1), env.evalBool(e.Expr), token.NoPos)
	}
	res.Obls = fc.obls
	return res
}

func goTypeByName(n string) types.Type {
	switch n {
	case "int", "int64":
		return types.Typ[types.Int64]
	case "byte", "uint8":
		return types.Typ[types.Uint8]
	case "uint16":
		return types.Typ[types.Uint16]
	case "uint32":
		return types.Typ[types.Uint32]
	case "uint64", "uint":
		return types.Typ[types.Uint64]
	case "int32", "rune":
		return types.Typ[types.Int32]
	}
	return nil
}

// globalsUsed: names of package-level variables mentioned by a function body, following calls to
// functions of the same package that have no contract (they are inlined) up to the given depth.
func (V *Verifier) globalsUsed(fi *FuncInfo, depth int) map[string]bool {
	out := map[string]bool{}
	var visit func(fi *FuncInfo, d int)
	seen := map[*FuncInfo]bool{}
	visit = func(fi *FuncInfo, d int) {
		if fi == nil || seen[fi] || fi.Decl.Body == nil {
			return
		}
		seen[fi] = true
		ast.Inspect(fi.Decl.Body, func(n ast.Node) bool {
			id, ok := n.(*ast.Ident)
			if !ok {
				return true
			}
			switch o := fi.Pkg.Info.Uses[id].(type) {
			case *types.Var:
				if o.Pkg() != nil && o.Parent() == o.Pkg().Scope() {
					out[o.Name()] = true
				}
			case *types.Func:
				if d > 0 {
					if c := V.contractFor(o); c == nil || c.Inline {
						visit(V.funcInfo(o), d-1)
					}
				}
			}
			return true
		})
	}
	visit(fi, depth)
	return out
}

func collectIdents(n *SNode, out map[string]bool) {
	if n == nil {
		return
	}
	if n.Op == "id" || n.Op == "call" {
		out[n.Text] = true
	}
	for _, a := range n.Args {
		collectIdents(a, out)
	}
}

// contractIdents lists every identifier / spec name mentioned anywhere in a function contract.
func contractIdents(fct *FuncContract) []string {
	m := map[string]bool{}
	add := func(cs []*Clause) {
		for _, c := range cs {
			collectIdents(c.Expr, m)
			for _, e := range c.List {
				collectIdents(e, m)
			}
		}
	}
	add(fct.Requires)
	add(fct.Ensures)
	add(fct.PanicsIf)
	add(fct.Ghosts)
	for _, l := range fct.Loops {
		add(l.Invariants)
	}
	for _, a := range fct.Anchors {
		add(a.Clauses)
	}
	var out []string
	for k := range m {
		out = append(out, k)
	}
	sort.Strings(out)
	return out
}

func sIntLit(v string) string {
	if strings.HasPrefix(v, "-") {
		return "(- " + v[1:] + ")"
	}
	return v
}

// clauseInScope: every identifier of the clause resolves on this path.
func (st *State) clauseInScope(c *Clause, pos token.Pos, anchor string) bool {
	if anchor != "end" {
		return true
	}
	ids := map[string]bool{}
	collectIdents(c.Expr, ids)
	for _, e := range c.List {
		collectIdents(e, ids)
	}
	env := st.fc.newSpecEnv(st, nil, st.fc.entrySnap, pos, "scope probe")
	for name := range ids {
		if _, ok := env.lookup(name); ok {
			continue
		}
		if env.scope != nil {
			if _, obj := env.scope.LookupParent(name, token.NoPos); obj != nil {
				if _, isVar := obj.(*types.Var); isVar {
					return false
				}
			}
		}
		// a local of an inner scope (loop variable) that is not live on this path
		if st.fc.isLocalName(name) {
			return false
		}
		if strings.HasPrefix(name, "idx") || strings.HasPrefix(name, "tr_") || strings.HasPrefix(name, "ntr_") {
			return false // loop index ghost of a loop that was not reached
		}
	}
	return true
}

func (fc *FuncCtx) isLocalName(name string) bool {
	found := false
	ast.Inspect(fc.Decl, func(n ast.Node) bool {
		if id, ok := n.(*ast.Ident); ok && id.Name == name {
			if _, isVar := fc.Pkg.Info.Defs[id].(*types.Var); isVar {
				found = true
			}
		}
		return !found
	})
	return found
}

func fileExists(p string) bool {
	_, err := os.Stat(p)
	return err == nil
}

// funcInfoForContract resolves "f@g" contract keys to function f and binds the instantiated parameter.
func (V *Verifier) funcInfoForContract(pkg, key string, fct *FuncContract) *FuncInfo {
	base := key
	if k := strings.Index(key, "@"); k >= 0 {
		base = key[:k]
	}
	fi := V.funcsByKey[pkg+"."+base]
	if fi == nil {
		return nil
	}
	if fct != nil && fct.InstName != "" && fct.InstFunc == nil {
		if g := V.funcsByKey[pkg+"."+fct.InstName]; g != nil {
			fct.InstFunc = g.Obj
		}
	}
	if base != key {
		// a distinct FuncInfo so that obligation names carry the instantiation
		c := *fi
		c.Key = key
		return &c
	}
	return fi
}

func contractTags(fct *FuncContract) []string {
	m := map[string]bool{}
	add := func(cs []*Clause) {
		for _, c := range cs {
			if c.Tag != "" {
				m[c.Tag] = true
			}
		}
	}
	add(fct.Requires)
	add(fct.Ensures)
	add(fct.Ghosts)
	add(fct.Modifies)
	for _, l := range fct.Loops {
		add(l.Invariants)
	}
	for _, a := range fct.Anchors {
		add(a.Clauses)
	}
	var out []string
	for k := range m {
		out = append(out, k)
	}
	sort.Strings(out)
	return out
}

// filterContract keeps the untagged clauses and those of one group.
func filterContract(fct *FuncContract, tag string) *FuncContract {
	keep := func(cs []*Clause) []*Clause {
		var out []*Clause
		for _, c := range cs {
			if c.Tag == "" || c.Tag == tag {
				out = append(out, c)
			}
		}
		return out
	}
	c := *fct
	c.Full = fct
	c.Modifies = keep(fct.Modifies)
	c.Requires, c.Ensures, c.Ghosts = keep(fct.Requires), keep(fct.Ensures), keep(fct.Ghosts)
	c.Loops = map[int]*LoopSpec{}
	for k, l := range fct.Loops {
		lc := *l
		lc.Invariants = keep(l.Invariants)
		c.Loops[k] = &lc
	}
	c.Anchors = map[string]*AnchorSpec{}
	for k, a := range fct.Anchors {
		c.Anchors[k] = &AnchorSpec{Anchor: a.Anchor, Clauses: keep(a.Clauses)}
	}
	return &c
}

// unifyTypes binds type parameters occurring in pattern p to the corresponding parts of a.
func unifyTypes(p, a types.Type, sub map[string]types.Type) {
	if a == nil {
		return
	}
	switch x := p.(type) {
	case *types.TypeParam:
		if _, isTP := a.(*types.TypeParam); !isTP || x.Obj().Name() != a.(*types.TypeParam).Obj().Name() {
			sub[x.Obj().Name()] = a
		}
	case *types.Slice:
		if y, ok := a.Underlying().(*types.Slice); ok {
			unifyTypes(x.Elem(), y.Elem(), sub)
		}
	case *types.Pointer:
		if y, ok := a.Underlying().(*types.Pointer); ok {
			unifyTypes(x.Elem(), y.Elem(), sub)
		}
	case *types.Signature:
		if y, ok := a.Underlying().(*types.Signature); ok {
			for i := 0; i < x.Params().Len() && i < y.Params().Len(); i++ {
				unifyTypes(x.Params().At(i).Type(), y.Params().At(i).Type(), sub)
			}
		}
	}
}
