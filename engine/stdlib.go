package main

// Exact or assumed models of a few dependency functions that are easier to give as
// term constructions than as contracts. Everything here is part of the trusted base and
// is listed in the evidence ("assumed model of ...").

import (
	"fmt"
	"strings"
	"go/ast"
	"go/types"
)

func fullName(fn *types.Func) string {
	if fn.Pkg() == nil {
		return fn.Name()
	}
	_, key := funcKey(fn)
	return fn.Pkg().Path() + "." + key
}

func (st *State) stdlibSpecial(fn *types.Func, recv *Val, args []Val, call *ast.CallExpr) ([]Val, bool) {
	fc := st.fc
	name := fullName(fn)
	note := func() { fc.noteAssumption("assumed model of dependency " + name + " (engine/stdlib.go)") }
	i32 := types.Typ[types.Int32]
	if strings.HasPrefix(name, "sync/atomic.") && fc.isRG() && fc.inlineDepth == 0 && !st.rgInAtomic {
		// rely-guarantee mode: interference first, then the atomic step, then its ghost updates and the step check
		st.rgStabilize(call.Pos())
		if ord, has := fc.callOrd[call]; has {
			// assertions about the state after interference, right before the step (helps to instantiate the rely)
			pre := st.rgPre
			st.rgPre = nil
			st.runAnchor(fmt.Sprintf("before-call%d", ord), call.Pos())
			st.rgPre = pre
		}
		st.rgInAtomic = true
		res, ok := st.stdlibSpecial(fn, recv, args, call)
		st.rgInAtomic = false
		if ok && len(res) > 0 {
			st.ghost["last_ret"] = res[0]
		}
		if call != fc.topCall {
			if ord, has := fc.callOrd[call]; has {
				st.runAnchor(fmt.Sprintf("after-call%d", ord), call.End())
			} else {
				st.rgCheckStep("after-call?", call.End())
			}
		}
		return res, ok
	}
	switch name {
	case "sync.RWMutex.Lock", "sync.RWMutex.Unlock", "sync.RWMutex.RLock", "sync.RWMutex.RUnlock", "sync.Mutex.Lock", "sync.Mutex.Unlock":
		// lock discipline: the lock state is tracked per path, keyed by the text of the mutex expression
		fc.noteAssumption("sync.(RW)Mutex: Lock/RLock acquire and Unlock/RUnlock release the named mutex (Go memory model: accesses under a common lock are ordered); lock state is tracked per path by the mutex expression")
		key := "?"
		if sel, ok := ast.Unparen(call.Fun).(*ast.SelectorExpr); ok {
			key = lockKey(exprStr(sel.X))
		}
		lv := st.locks[key]
		if fn.Name() == "Lock" || fn.Name() == "RLock" {
			// atomicity: the whole effect of a call lies in ONE critical section (a mutex is not re-acquired after
			// it was released: check-then-act split over two sections would not be atomic)
			st.oblige("lock", "one-critical-section("+key+")", boolStr(st.locks["#acquired:"+key] == 0), call.Pos())
			st.locks["#acquired:"+key]++
		}
		switch fn.Name() {
		case "Lock":
			st.oblige("lock", "not-held-before-Lock("+key+")", boolStr(lv == 0), call.Pos())
			st.locks[key] = 2
		case "RLock":
			st.oblige("lock", "not-held-before-RLock("+key+")", boolStr(lv == 0), call.Pos())
			st.locks[key] = 1
		case "Unlock":
			st.oblige("lock", "write-held-at-Unlock("+key+")", boolStr(lv == 2), call.Pos())
			st.locks[key] = 0
		case "RUnlock":
			st.oblige("lock", "read-held-at-RUnlock("+key+")", boolStr(lv == 1), call.Pos())
			st.locks[key] = 0
		}
		return nil, true
	case "unicode/utf8.DecodeRuneInString":
		note()
		r, w := st.decodeRune(args[0], "0")
		return []Val{vInt(r, i32), vInt(w, intType)}, true
	case "unicode/utf8.DecodeRune":
		note()
		s := args[0]
		h := st.heapGet("E!uint8!", "(Array Int (Array Int Int))")
		row := st.define("row", "(Array Int Int)", sSel(h, s.arr()))
		r, w := st.decodeAt(row, s.off(), st.define("e", "Int", sAdd(s.off(), s.length())))
		return []Val{vInt(r, i32), vInt(w, intType)}, true
	case "unicode/utf8.RuneLen":
		note()
		r := args[0].S
		t := sIte(sCmp("<", r, "0"), "(- 1)", sIte(sCmp("<", r, "128"), "1", sIte(sCmp("<", r, "2048"), "2",
			sIte(sAnd(sCmp("<=", "55296", r), sCmp("<=", r, "57343")), "(- 1)", sIte(sCmp("<", r, "65536"), "3", sIte(sCmp("<=", r, "1114111"), "4", "(- 1)"))))))
		return []Val{vInt(st.define("runelen", "Int", t), intType)}, true
	case "unicode/utf8.RuneCountInString", "unicode/utf8.RuneCount":
		note()
		fc.V.utf8Prelude()
		fc.V.addPrelude("u8count", "(define-fun-rec g_u8count ((c (Array Int Int)) (p Int) (e Int)) Int (ite (>= p e) 0 (+ 1 (g_u8count c (+ p (g_utf8_width c p e)) e))))")
		s := args[0]
		var c, p, e string
		if s.K == KString {
			c, p, e = s.content(), s.soff(), sAdd(s.soff(), s.length())
		} else {
			h := st.heapGet("E!uint8!", "(Array Int (Array Int Int))")
			c, p, e = sSel(h, s.arr()), s.off(), sAdd(s.off(), s.length())
		}
		n := st.define("runecount", "Int", sApp("g_u8count", c, p, e))
		st.assume(sAnd(sCmp("<=", "0", n), sCmp("<=", n, s.length()), sImp(sCmp(">", s.length(), "0"), sCmp(">=", n, "1"))))
		return []Val{vInt(n, intType)}, true
	case "unicode/utf8.EncodeRune":
		note()
		return []Val{st.encodeRune(args[0], args[1], call)}, true
	case "unicode/utf8.ValidRune":
		note()
		r := args[0].S
		return []Val{vBool(sOr(sAnd(sCmp("<=", "0", r), sCmp("<", r, "55296")), sAnd(sCmp("<", "57343", r), sCmp("<=", r, "1114111"))))}, true
	case "unicode/utf16.EncodeRune":
		note()
		r := args[0].S
		ok := sAnd(sCmp("<=", "65536", r), sCmp("<=", r, "1114111"))
		rr := sSub(r, "65536")
		r1 := sIte(ok, sAdd("55296", sApp("div", rr, "1024")), "65533")
		r2 := sIte(ok, sAdd("56320", sApp("mod", rr, "1024")), "65533")
		return []Val{vInt(st.define("r1", "Int", r1), i32), vInt(st.define("r2", "Int", r2), i32)}, true
	case "unicode/utf16.DecodeRune":
		note()
		r1, r2 := args[0].S, args[1].S
		ok := sAnd(sCmp("<=", "55296", r1), sCmp("<", r1, "56320"), sCmp("<=", "56320", r2), sCmp("<", r2, "57344"))
		t := sIte(ok, sAdd(sAdd(sMul(sSub(r1, "55296"), "1024"), sSub(r2, "56320")), "65536"), "65533")
		return []Val{vInt(st.define("r", "Int", t), i32)}, true
	case "unicode/utf16.IsSurrogate":
		note()
		r := args[0].S
		return []Val{vBool(sAnd(sCmp("<=", "55296", r), sCmp("<", r, "57344")))}, true
	case "sync/atomic.LoadUint32", "sync/atomic.LoadInt32", "sync/atomic.LoadInt64", "sync/atomic.LoadUint64", "sync/atomic.LoadPointer":
		fc.noteAssumption("sync/atomic operations are given their sequential meaning here (single goroutine); interleavings are the subject of the concurrency checks")
		return []Val{st.deref(args[0], call.Pos(), exprStr(call.Args[0]))}, true
	case "sync/atomic.StoreUint32", "sync/atomic.StoreInt32", "sync/atomic.StoreInt64", "sync/atomic.StoreUint64", "sync/atomic.StorePointer":
		fc.noteAssumption("sync/atomic operations are given their sequential meaning here (single goroutine); interleavings are the subject of the concurrency checks")
		st.storeThrough(args[0], args[1], call.Pos(), exprStr(call.Args[0]))
		return nil, true
	case "sync/atomic.CompareAndSwapUint32", "sync/atomic.CompareAndSwapInt32", "sync/atomic.CompareAndSwapInt64", "sync/atomic.CompareAndSwapUint64", "sync/atomic.CompareAndSwapPointer":
		fc.noteAssumption("sync/atomic operations are given their sequential meaning here (single goroutine); interleavings are the subject of the concurrency checks")
		cur := st.deref(args[0], call.Pos(), exprStr(call.Args[0]))
		ok := st.define("cas", "Bool", sEq(cur.S, args[1].S))
		nv := cur
		nv.S = st.define("casv", "Int", sIte(ok, args[2].S, cur.S))
		st.storeThrough(args[0], nv, call.Pos(), exprStr(call.Args[0]))
		return []Val{vBool(ok)}, true
	case "sync/atomic.AddInt64", "sync/atomic.AddInt32", "sync/atomic.AddUint32", "sync/atomic.AddUint64":
		fc.noteAssumption("sync/atomic operations are given their sequential meaning here (single goroutine); interleavings are the subject of the concurrency checks")
		cur := st.deref(args[0], call.Pos(), exprStr(call.Args[0]))
		pt := args[0].T.Underlying().(*types.Pointer).Elem()
		nv := st.arith("+", cur, args[1], pt, call.Pos(), exprStr(call))
		st.storeThrough(args[0], nv, call.Pos(), exprStr(call.Args[0]))
		return []Val{nv}, true
	case "strings.Builder.Grow", "strings.Builder.WriteRune", "strings.Builder.WriteByte", "strings.Builder.WriteString", "strings.Builder.Write",
		"strings.Builder.String", "strings.Builder.Len", "strings.Builder.Cap", "strings.Builder.Reset":
		note()
		return st.builderOp(fn.Name(), *recv, args, call), true
	case "math/bits.OnesCount64":
		note()
		fc.V.bitPrelude()
		return []Val{vInt(st.define("pc", "Int", sApp("g_pc64", args[0].S)), intType)}, true
	case "errors.New", "fmt.Errorf":
		note()
		e := fc.fresh("err", "Int")
		st.assume(sCmp(">", e, "0"))
		return []Val{vInt(e, fn.Type().(*types.Signature).Results().At(0).Type())}, true
	case "bytes.Equal":
		note()
		a, b := args[0], args[1]
		eq := fc.fresh("byteseq", "Bool")
		// absolute-index forms over each operand (E-matching friendly); both are equivalent to element-wise equality
		absForm := func(x, y Val) string {
			xoff := x.off()
			if x.K == KString {
				xoff = x.soff()
			}
			var xsel string
			if x.K == KString {
				xsel = sSel(x.content(), "g_k")
			} else {
				h := st.heapGet("E!uint8!", "(Array Int (Array Int Int))")
				xsel = sSel(sSel(h, x.arr()), "g_k")
			}
			return fmt.Sprintf("(forall ((g_k Int)) (=> (and (<= %s g_k) (< g_k %s)) (= %s %s)))", xoff, sAdd(xoff, x.length()), xsel, st.elemTerm(y, sSub("g_k", xoff)))
		}
		st.assume(sEq(eq, sAnd(sEq(a.length(), b.length()), absForm(a, b))))
		st.assume(sImp(eq, absForm(b, a)))
		return []Val{vBool(eq)}, true
	case "strconv.Itoa", "strconv.FormatInt", "strconv.FormatUint":
		note()
		return []Val{st.freshVal("str", types.Typ[types.String])}, true
	}
	return nil, false
}

// elemTerm is the SMT term of s[k] for a byte slice or string (current heap).
func (st *State) elemTerm(s Val, k string) string {
	if s.K == KString {
		return s.at(k)
	}
	et := sliceElemType(s.T)
	cs := flatComps(et)
	h := st.heapGet(elemHeapName(et, cs[0]), elemSort(cs[0]))
	return sSel(sSel(h, s.arr()), sAdd(s.off(), k))
}

// encodeRune models utf8.EncodeRune(p, r) exactly, including the panic when p is too short.
func (st *State) encodeRune(p, rv Val, call *ast.CallExpr) Val {
	r := rv.S
	invalid := sOr(sCmp("<", r, "0"), sCmp(">", r, "1114111"), sAnd(sCmp("<=", "55296", r), sCmp("<=", r, "57343")))
	rr := st.define("er", "Int", sIte(invalid, "65533", r))
	n := st.define("en", "Int", sIte(sCmp("<", rr, "128"), "1", sIte(sCmp("<", rr, "2048"), "2", sIte(sCmp("<", rr, "65536"), "3", "4"))))
	st.oblige("bounds", "utf8.EncodeRune-room("+exprStr(call)+")", sCmp("<=", n, p.length()), call.Pos())
	name := "E!uint8!"
	srt := "(Array Int (Array Int Int))"
	h := st.heapGet(name, srt)
	row := sSel(h, p.arr())
	at := func(k int) string { return sAdd(p.off(), sInt(int64(k))) }
	div := func(a string, d int64) string { return sApp("div", a, sInt(d)) }
	mod64 := func(a string) string { return sApp("mod", a, "64") }
	b0 := sIte(sEq(n, "1"), rr, sIte(sEq(n, "2"), sAdd("192", div(rr, 64)), sIte(sEq(n, "3"), sAdd("224", div(rr, 4096)), sAdd("240", div(rr, 262144)))))
	b1 := sIte(sEq(n, "2"), sAdd("128", mod64(rr)), sIte(sEq(n, "3"), sAdd("128", mod64(div(rr, 64))), sAdd("128", mod64(div(rr, 4096)))))
	b2 := sIte(sEq(n, "3"), sAdd("128", mod64(rr)), sAdd("128", mod64(div(rr, 64))))
	b3 := sAdd("128", mod64(rr))
	nrow := st.fc.fresh("row", "(Array Int Int)")
	body := sIte(sEq("g_k", at(0)), b0, sIte(sAnd(sEq("g_k", at(1)), sCmp(">=", n, "2")), b1, sIte(sAnd(sEq("g_k", at(2)), sCmp(">=", n, "3")), b2, sIte(sAnd(sEq("g_k", at(3)), sCmp(">=", n, "4")), b3, sSel(row, "g_k")))))
	st.assume(fmt.Sprintf("(forall ((g_k Int)) (! (= (select %s g_k) %s) :pattern ((select %s g_k))))", nrow, body, nrow))
	st.noteWrite(name, p.arr())
	st.heapSet(name, srt, sStore(h, p.arr(), nrow))
	return vInt(n, intType)
}

// builderOp models strings.Builder on its real representation: the field buf []byte is the content.
func (st *State) builderOp(method string, recv Val, args []Val, call *ast.CallExpr) []Val {
	bv := st.deref(recv, call.Pos(), "strings.Builder receiver")
	bt := bv.T.Underlying().(*types.Struct)
	bi := -1
	for i := 0; i < bt.NumFields(); i++ {
		if bt.Field(i).Name() == "buf" {
			bi = i
		}
	}
	if bi < 0 {
		panic(vcErr("strings.Builder has no buf field in this Go version"))
	}
	buf := bv.Sub[bi]
	bufT := bt.Field(bi).Type()
	setBuf := func(nb Val) {
		nv := bv
		nv.Sub = append([]Val(nil), bv.Sub...)
		nv.Sub[bi] = nb
		st.storeThrough(recv, nv, call.Pos(), "strings.Builder receiver")
	}
	errT := types.Universe.Lookup("error").Type()
	switch method {
	case "Len":
		return []Val{vInt(buf.length(), intType)}
	case "Cap":
		return []Val{vInt(buf.capa(), intType)}
	case "Reset":
		setBuf(st.zeroVal(bufT))
		return nil
	case "String":
		c := st.fc.fresh("sbstr", "(Array Int Int)")
		h := st.heapGet("E!uint8!", "(Array Int (Array Int Int))")
		st.assume(fmt.Sprintf("(forall ((g_k Int)) (! (= (select %s g_k) (select (select %s %s) (+ %s g_k))) :pattern ((select %s g_k))))", c, h, buf.arr(), buf.off(), c))
		return []Val{mkString(types.Typ[types.String], c, "0", buf.length())}
	case "Grow":
		n := args[0].S
		st.oblige("panic-unreachable", "strings.Builder.Grow-negative("+exprStr(call)+")", sCmp(">=", n, "0"), call.Pos())
		// if cap-len < n: reallocate with capacity 2*cap+n (content preserved); else unchanged
		need := st.define("grow", "Bool", sCmp("<", sSub(buf.capa(), buf.length()), n))
		fresh := st.allocRef()
		newCap := st.define("cap", "Int", sAdd(sMul("2", buf.capa()), n))
		name := "E!uint8!"
		srt := "(Array Int (Array Int Int))"
		h := st.heapGet(name, srt)
		row := st.fc.fresh("row", "(Array Int Int)")
		st.assume(fmt.Sprintf("(forall ((g_k Int)) (! (=> (and (<= 0 g_k) (< g_k %s)) (= (select %s g_k) (select (select %s %s) (+ %s g_k)))) :pattern ((select %s g_k))))", buf.length(), row, h, buf.arr(), buf.off(), row))
		st.noteWrite(name, fresh)
		st.heapSet(name, srt, sIte(need, sStore(h, fresh, row), h))
		nb := mkSlice(bufT, st.define("arr", "Int", sIte(need, fresh, buf.arr())), st.define("off", "Int", sIte(need, "0", buf.off())), buf.length(), st.define("cap", "Int", sIte(need, newCap, buf.capa())))
		setBuf(nb)
		return nil
	case "WriteByte":
		nb := st.appendVals(buf, bufT, []Val{vInt(args[0].S, types.Typ[types.Uint8])})
		setBuf(nb)
		return []Val{vInt("0", errT)}
	case "WriteString", "Write":
		nb := st.appendSeq(buf, bufT, args[0])
		setBuf(nb)
		return []Val{vInt(args[0].length(), intType), vInt("0", errT)}
	case "WriteRune":
		// append(buf, 0,0,0,0)[:len] then EncodeRune into the tail, keep n bytes
		r := args[0]
		z := vInt("0", types.Typ[types.Uint8])
		tmp := st.appendVals(buf, bufT, []Val{z, z, z, z})
		tail := mkSlice(bufT, tmp.arr(), st.define("off", "Int", sAdd(tmp.off(), buf.length())), "4", "4")
		n := st.encodeRune(tail, r, call)
		nb := mkSlice(bufT, tmp.arr(), tmp.off(), st.define("len", "Int", sAdd(buf.length(), n.S)), tmp.capa())
		setBuf(nb)
		return []Val{n, vInt("0", errT)}
	}
	panic(vcErr("unsupported strings.Builder method " + method))
}
