package main

import (
	"fmt"
	"go/ast"
	"go/token"
	"go/types"
	"strings"
)

func (st *State) pkg() *PkgInfo {
	if st.curPkg != nil {
		return st.curPkg
	}
	return st.fc.Pkg
}

// calleeOf resolves the static callee of a call expression.
type callee struct {
	fn      *types.Func
	recv    ast.Expr // receiver expression for method calls
	builtin string
	conv    types.Type // conversion target
	fval    ast.Expr   // call of a function value (variable / field / closure)
	iface   bool
}

func (st *State) resolveCallee(call *ast.CallExpr) callee {
	info := st.info()
	fun := ast.Unparen(call.Fun)
	if tv, ok := info.Types[fun]; ok && tv.IsType() {
		return callee{conv: tv.Type}
	}
	// generic instantiation f[T](...)
	switch ix := fun.(type) {
	case *ast.IndexExpr:
		if tv, ok := info.Types[ix.X]; ok {
			if _, isSig := tv.Type.Underlying().(*types.Signature); isSig {
				fun = ix.X
			}
		}
	case *ast.IndexListExpr:
		fun = ix.X
	}
	switch f := fun.(type) {
	case *ast.Ident:
		switch o := info.ObjectOf(f).(type) {
		case *types.Builtin:
			return callee{builtin: o.Name()}
		case *types.Func:
			return callee{fn: o}
		case *types.Var:
			return callee{fval: f}
		}
	case *ast.SelectorExpr:
		if sel, ok := info.Selections[f]; ok {
			switch sel.Kind() {
			case types.MethodVal:
				fn := sel.Obj().(*types.Func)
				_, isIface := sel.Recv().Underlying().(*types.Interface)
				if _, isTP := sel.Recv().(*types.TypeParam); isTP {
					isIface = true
				}
				return callee{fn: fn, recv: f.X, iface: isIface}
			case types.FieldVal:
				return callee{fval: f}
			}
		}
		// qualified identifier pkg.Func
		if fn, ok := info.ObjectOf(f.Sel).(*types.Func); ok {
			return callee{fn: fn}
		}
		if _, ok := info.ObjectOf(f.Sel).(*types.Var); ok {
			return callee{fval: f}
		}
	case *ast.FuncLit:
		return callee{fval: f}
	}
	panic(vcErr("cannot resolve callee of " + exprStr(call)))
}

func funcKey(fn *types.Func) (pkg, key string) {
	if fn.Pkg() != nil {
		pkg = fn.Pkg().Name()
	}
	sig := fn.Type().(*types.Signature)
	key = fn.Name()
	if r := sig.Recv(); r != nil {
		rt := r.Type()
		if p, ok := rt.(*types.Pointer); ok {
			rt = p.Elem()
		}
		switch n := rt.(type) {
		case *types.Named:
			key = n.Origin().Obj().Name() + "." + fn.Name()
		case *types.Alias:
			key = n.Obj().Name() + "." + fn.Name()
		default:
			// interface method reached through an embedded/anonymous interface
			key = "?." + fn.Name()
		}
	}
	return
}

// isSimpleCall: calls that never fork and can be evaluated inside expressions.
func (st *State) isSimpleCall(call *ast.CallExpr) bool {
	c := st.resolveCallee(call)
	if c.builtin != "" || c.conv != nil {
		return true
	}
	if c.fval != nil {
		if _, isLit := c.fval.(*ast.FuncLit); isLit {
			return false
		}
		v := st.eval(c.fval)
		return v.Fn != nil && v.Fn.Sym != ""
	}
	if c.fn != nil {
		if fct := st.fc.V.contractFor(c.fn); fct != nil && !fct.Inline {
			return true
		}
		fi := st.fc.V.funcInfo(c.fn)
		if fi != nil && singleReturnExpr(fi.Decl) != nil {
			return true
		}
		if fi != nil && fi.Decl.Body != nil {
			return false
		}
		if fi == nil {
			return true // external without contract: error raised on evaluation
		}
	}
	return false
}

func singleReturnExpr(d *ast.FuncDecl) ast.Expr {
	if d == nil || d.Body == nil || len(d.Body.List) != 1 {
		return nil
	}
	r, ok := d.Body.List[0].(*ast.ReturnStmt)
	if !ok || len(r.Results) != 1 {
		return nil
	}
	return r.Results[0]
}

// evalCall evaluates a call inside an expression (no forking allowed).
func (st *State) evalCall(call *ast.CallExpr) []Val {
	outs := st.execCallValues(call)
	if len(outs) > 1 {
		// a callee that may panic inside an expression: the panic must be unreachable here
		var keep []Outcome
		for _, o := range outs {
			if o.kind == oPanic {
				o.st.oblige("call-pre", "no-panic("+exprStr(call)+")", "false", call.Pos())
				continue
			}
			keep = append(keep, o)
		}
		outs = keep
	}
	if len(outs) != 1 || outs[0].kind != oNormal {
		panic(vcErr("call " + exprStr(call) + " forks or does not return normally; it needs a contract or must be a statement"))
	}
	if outs[0].st != st {
		// adopt the resulting state
		*st = *outs[0].st
	}
	return outs[0].vals
}

// execCallStmt runs a call as a statement, optionally binding results to lhs.
func (st *State) execCallStmt(call *ast.CallExpr, lhs []ast.Expr, tok token.Token) []Outcome {
	var res []Outcome
	for _, o := range st.execCallValues(call) {
		if o.kind != oNormal {
			res = append(res, o)
			continue
		}
		if lhs != nil {
			if len(lhs) != len(o.vals) {
				if len(o.vals) == 1 && o.vals[0].K == KTuple {
					o.vals = o.vals[0].Sub
				}
			}
			if len(lhs) != len(o.vals) {
				panic(vcErr(fmt.Sprintf("call %s yields %d values, %d wanted", exprStr(call), len(o.vals), len(lhs))))
			}
			for i, l := range lhs {
				o.st.bind(l, o.vals[i], tok)
			}
		}
		res = append(res, Outcome{st: o.st, kind: oNormal})
	}
	return res
}

// execCallValues: general call; outcomes are oNormal (with vals) or oPanic.
func (st *State) execCallValues(call *ast.CallExpr) []Outcome {
	c := st.resolveCallee(call)
	one := func(vs ...Val) []Outcome { return []Outcome{{st: st, kind: oNormal, vals: vs}} }
	switch {
	case c.conv != nil:
		v := st.eval(call.Args[0])
		if v.K == KNil {
			return one(st.zeroVal(st.subst(c.conv)))
		}
		return one(st.convert(v, st.typeOf(call.Args[0]), st.subst(c.conv), call.Pos(), exprStr(call)))
	case c.builtin != "":
		return st.execBuiltin(c.builtin, call)
	case c.fval != nil:
		if lit, ok := c.fval.(*ast.FuncLit); ok {
			args := st.evalArgs(call, lit.Type, nil)
			return st.inlineBody(lit.Body, st.typeOf(lit).(*types.Signature), paramObjs(st.info(), lit.Type), nil, args, Val{}, nil, st.curPkg, st.tsub)
		}
		fv := st.eval(c.fval)
		var args []Val
		for _, a := range call.Args {
			args = append(args, st.eval(a))
		}
		if fv.K == KFunc && fv.Fn != nil && fv.Fn.Sym != "" {
			if id, ok := c.fval.(*ast.Ident); ok && st.fc.inlineDepth == 0 && st.fc.curContract != nil {
				for _, tn := range st.fc.curContract.Traced {
					if tn == id.Name && len(args) >= 1 && args[0].K == KInt { // the trace records the first argument
						tr, ntr := st.ghost["tr_"+tn], st.ghost["ntr_"+tn]
						st.ghost["tr_"+tn] = vRaw(st.define("tr", "(Array Int Int)", sStore(tr.S, ntr.S, args[0].S)), "(Array Int Int)")
						st.ghost["ntr_"+tn] = vInt(st.define("ntr", "Int", sAdd(ntr.S, "1")), intType)
						if st.fc.rec != nil {
							st.fc.rec.ghosts["tr_"+tn] = true
							st.fc.rec.ghosts["ntr_"+tn] = true
						}
					}
				}
			}
			res := flattenTuple(st.applyFuncVal(fv, args))
			if st.fc.inlineDepth == 0 && call != st.fc.topCall {
				// a callback nested in an expression (e.g. `if !f(k, v)`): its after-call anchor runs right here
				if ord, ok := st.fc.callOrd[call]; ok {
					if len(res) > 0 {
						st.ghost["last_ret"] = res[0]
					}
					st.runAnchor(fmt.Sprintf("after-call%d", ord), call.End())
				}
			}
			return one(res...)
		}
		if fv.K == KFunc && fv.Obj != nil {
			if fn, ok := fv.Obj.(*types.Func); ok {
				return st.callFunc(fn, nil, args, call)
			}
		}
		if fv.K == KInt {
			// an opaque function value (read from a field): uninterpreted applicator over (function, arguments)
			return one(flattenTuple(st.applyOpaque(fv, st.typeOf(c.fval), args))...)
		}
		if fv.K == KFunc && fv.S == "closure" {
			panic(vcErr("call of closure value " + exprStr(call) + " not supported"))
		}
		panic(vcErr("call of unsupported function value " + exprStr(call)))
	}
	fn := c.fn
	var recv *Val
	if c.recv != nil {
		sig := fn.Type().(*types.Signature)
		rv := st.evalReceiver(c.recv, sig, c.iface)
		recv = &rv
	}
	var args []Val
	sig := fn.Type().(*types.Signature)
	if call.Ellipsis.IsValid() || !sig.Variadic() {
		if len(call.Args) == 1 && sig.Params().Len() > 1 {
			// f(g()) with multi-value g
			v := st.eval(call.Args[0])
			args = v.Sub
		} else {
			for i, a := range call.Args {
				v := st.eval(a)
				if i < sig.Params().Len() {
					v = st.coerceArg(v, st.typeOf(a), sig.Params().At(i).Type())
				}
				args = append(args, v)
			}
		}
	} else {
		n := sig.Params().Len() - 1
		for i := 0; i < n; i++ {
			args = append(args, st.coerceArg(st.eval(call.Args[i]), st.typeOf(call.Args[i]), sig.Params().At(i).Type()))
		}
		// pack the variadic tail into a fresh slice
		vt := sig.Params().At(n).Type()
		rest := call.Args[n:]
		if len(rest) == 0 {
			args = append(args, st.zeroVal(vt))
		} else {
			arr := st.allocRef()
			sv := mkSlice(vt, arr, "0", sInt(int64(len(rest))), sInt(int64(len(rest))))
			for i, a := range rest {
				st.storeElem(sv, sInt(int64(i)), st.coerce(st.coerceArg(st.eval(a), st.typeOf(a), sliceElemType(vt)), sliceElemType(vt)))
			}
			args = append(args, sv)
		}
	}
	return st.callFunc(fn, recv, args, call)
}

func flattenTuple(v Val) []Val {
	if v.K == KTuple {
		return v.Sub
	}
	if v.K == KUnit {
		return nil
	}
	return []Val{v}
}

func (st *State) coerceArg(v Val, from, to types.Type) Val {
	if v.K == KNil {
		return st.zeroVal(to)
	}
	if classify(to) == tcIface && classify(from) != tcIface && from != nil {
		if v.K != KInt || classify(from) != tcPtr {
			// boxing a non-pointer value: a non-nil opaque token
			tok := st.fc.fresh("iface", "Int")
			st.assume(sCmp(">", tok, "0"))
			return vInt(tok, to)
		}
	}
	return v
}

func (st *State) evalArgs(call *ast.CallExpr, ft *ast.FuncType, sig *types.Signature) []Val {
	var args []Val
	for _, a := range call.Args {
		args = append(args, st.eval(a))
	}
	return args
}

func (st *State) evalReceiver(e ast.Expr, sig *types.Signature, iface bool) Val {
	rt := sig.Recv().Type()
	et := st.typeOf(e)
	_, wantPtr := rt.(*types.Pointer)
	_, havePtr := et.Underlying().(*types.Pointer)
	if iface {
		return st.eval(e)
	}
	switch {
	case wantPtr && !havePtr:
		return st.addressOfRecv(e)
	case !wantPtr && havePtr:
		p := st.eval(e)
		return st.deref(p, e.Pos(), exprStr(e))
	}
	return st.eval(e)
}

// addressOfRecv: &x for an addressable receiver expression.
func (st *State) addressOfRecv(e ast.Expr) Val {
	switch x := ast.Unparen(e).(type) {
	case *ast.Ident:
		return st.addressOf(x)
	case *ast.SelectorExpr:
		// p.f where f is a struct-valued field of a heap object: derived pointer (ref, field)
		return st.addressOf(x)
	case *ast.IndexExpr:
		return st.addressOf(x)
	}
	panic(vcErr("receiver " + exprStr(e) + " is not addressable in the model"))
}

func paramObjs(info *types.Info, ft *ast.FuncType) []*types.Var {
	var out []*types.Var
	if ft.Params == nil {
		return nil
	}
	for _, f := range ft.Params.List {
		if len(f.Names) == 0 {
			out = append(out, nil)
		}
		for _, n := range f.Names {
			v, _ := info.Defs[n].(*types.Var)
			out = append(out, v)
		}
	}
	return out
}

func resultObjs(info *types.Info, ft *ast.FuncType) []*types.Var {
	var out []*types.Var
	if ft.Results == nil {
		return nil
	}
	for _, f := range ft.Results.List {
		for _, n := range f.Names {
			v, _ := info.Defs[n].(*types.Var)
			out = append(out, v)
		}
	}
	return out
}

// callFunc dispatches a call to a declared function: contract, inlining, or error.
func (st *State) callFunc(fn *types.Func, recv *Val, args []Val, call *ast.CallExpr) []Outcome {
	V := st.fc.V
	fn = fn.Origin()
	if vals, ok := st.stdlibSpecial(fn, recv, args, call); ok {
		return []Outcome{{st: st, kind: oNormal, vals: vals}}
	}
	// contracts instantiated per function-valued argument: "down@swapEle" is used when a func argument is swapEle
	if fct := V.contractForInst(fn, args); fct != nil {
		if len(fct.PanicsIf) > 0 {
			cond := st.calleePanicCond(fct, fn, recv, args)
			ps := st.clone()
			ps.addFact(guarded(ps.guard, cond))
			st.addFact(guarded(st.guard, sNot(cond)))
			vals := st.applyContract(fct, fn, recv, args, call)
			return []Outcome{{st: st, kind: oNormal, vals: vals}, {st: ps, kind: oPanic}}
		}
		vals := st.applyContract(fct, fn, recv, args, call)
		return []Outcome{{st: st, kind: oNormal, vals: vals}}
	}
	if fct := V.contractFor(fn); fct != nil && !fct.Inline {
		if len(fct.PanicsIf) > 0 {
			// the callee panics exactly when its panics_if holds: fork a panicking outcome
			cond := st.calleePanicCond(fct, fn, recv, args)
			ps := st.clone()
			ps.addFact(guarded(ps.guard, cond))
			st.addFact(guarded(st.guard, sNot(cond)))
			vals := st.applyContract(fct, fn, recv, args, call)
			return []Outcome{{st: st, kind: oNormal, vals: vals}, {st: ps, kind: oPanic}}
		}
		vals := st.applyContract(fct, fn, recv, args, call)
		return []Outcome{{st: st, kind: oNormal, vals: vals}}
	}
	fi := V.funcInfo(fn)
	if fi == nil || fi.Decl.Body == nil {
		pkg, key := funcKey(fn)
		panic(vcErr("call to " + pkg + "." + key + " which has neither contract nor source"))
	}
	if st.fc.inlineDepth > 8 {
		panic(vcErr("inlining too deep at " + fn.FullName()))
	}
	sig := fn.Type().(*types.Signature)
	var recvObj *types.Var
	if fi.Decl.Recv != nil && len(fi.Decl.Recv.List) == 1 && len(fi.Decl.Recv.List[0].Names) == 1 {
		recvObj, _ = fi.Pkg.Info.Defs[fi.Decl.Recv.List[0].Names[0]].(*types.Var)
	}
	var rv Val
	if recv != nil {
		rv = *recv
	}
	// type substitution for generic callees
	tsub := st.inferSubst(fn, sig, recv, args, call)
	st.fc.noteInlined(fn.FullName())
	return st.inlineBody(fi.Decl.Body, sig, paramObjs(fi.Pkg.Info, fi.Decl.Type), resultObjs(fi.Pkg.Info, fi.Decl.Type), args, rv, recvObj, fi.Pkg, tsub)
}

func (fc *FuncCtx) noteInlined(name string) {
	if fc.inlined == nil {
		fc.inlined = map[string]bool{}
	}
	fc.inlined[name] = true
}

func (st *State) inferSubst(fn *types.Func, sig *types.Signature, recv *Val, args []Val, call *ast.CallExpr) map[string]types.Type {
	sub := map[string]types.Type{}
	for k, v := range st.tsub {
		sub[k] = v
	}
	bindTP := func(pt types.Type, at types.Type) {
		var walk func(p, a types.Type)
		walk = func(p, a types.Type) {
			if a == nil {
				return
			}
			switch x := p.(type) {
			case *types.TypeParam:
				if _, isTP := a.(*types.TypeParam); !isTP || true {
					sub[x.Obj().Name()] = a
				}
			case *types.Slice:
				if y, ok := a.Underlying().(*types.Slice); ok {
					walk(x.Elem(), y.Elem())
				}
			case *types.Pointer:
				if y, ok := a.Underlying().(*types.Pointer); ok {
					walk(x.Elem(), y.Elem())
				}
			case *types.Named:
				if y, ok := a.(*types.Named); ok && x.TypeArgs() != nil && y.TypeArgs() != nil && x.TypeArgs().Len() == y.TypeArgs().Len() {
					for i := 0; i < x.TypeArgs().Len(); i++ {
						walk(x.TypeArgs().At(i), y.TypeArgs().At(i))
					}
				}
			}
		}
		walk(pt, at)
	}
	if recv != nil && sig.Recv() != nil && recv.T != nil {
		bindTP(sig.Recv().Type(), recv.T)
	}
	for i := 0; i < sig.Params().Len() && i < len(args); i++ {
		if args[i].T != nil {
			bindTP(sig.Params().At(i).Type(), args[i].T)
		}
	}
	return sub
}

// subst applies the current type-parameter substitution (inlined generic bodies).
func (st *State) subst(t types.Type) types.Type {
	if len(st.tsub) == 0 || t == nil {
		return t
	}
	switch x := t.(type) {
	case *types.TypeParam:
		if r, ok := st.tsub[x.Obj().Name()]; ok {
			return r
		}
	case *types.Slice:
		return types.NewSlice(st.subst(x.Elem()))
	case *types.Pointer:
		return types.NewPointer(st.subst(x.Elem()))
	case *types.Array:
		return types.NewArray(st.subst(x.Elem()), x.Len())
	}
	return t
}

// inlineBody executes a callee body in the caller's state.
func (st *State) inlineBody(body *ast.BlockStmt, sig *types.Signature, params, results []*types.Var, args []Val, recv Val, recvObj *types.Var, pkg *PkgInfo, tsub map[string]types.Type) []Outcome {
	fc := st.fc
	fc.inlineDepth++
	defer func() { fc.inlineDepth-- }()
	savePkg, saveSub, saveDefers := st.curPkg, st.tsub, st.defers
	saveRes, saveSig := fc.results, fc.sig
	st.curPkg, st.tsub, st.defers = pkg, tsub, nil
	fc.results, fc.sig = results, sig
	if recvObj != nil {
		st.vars[recvObj] = recv
	}
	for i, p := range params {
		if p != nil && i < len(args) {
			st.vars[p] = st.coerce(args[i], st.subst(p.Type()))
		}
	}
	for _, r := range results {
		if r != nil {
			st.vars[r] = st.zeroVal(st.subst(r.Type()))
		}
	}
	outs := st.execBlock(body.List)
	fc.results, fc.sig = saveRes, saveSig
	var res []Outcome
	for _, o := range outs {
		switch o.kind {
		case oNormal:
			var vals []Val
			for _, r := range results {
				vals = append(vals, o.st.vars[r])
			}
			o.vals = vals
		case oReturn:
			o.kind = oNormal
		case oPanic:
		default:
			panic(vcErr("break/continue escaping inlined function"))
		}
		if o.kind == oNormal && len(o.st.defers) > 0 {
			o.st.runDefers()
		}
		o.st.curPkg, o.st.tsub, o.st.defers = savePkg, saveSub, saveDefers
		res = append(res, o)
	}
	return res
}

func (st *State) runDefers() {
	ds := st.defers
	st.defers = nil
	for i := len(ds) - 1; i >= 0; i-- {
		outs := st.execCallStmt(ds[i].call, nil, token.ILLEGAL)
		if len(outs) != 1 || outs[0].kind != oNormal {
			panic(vcErr("deferred call forks"))
		}
		if outs[0].st != st {
			*st = *outs[0].st
		}
	}
}

// applyFuncVal applies an uninterpreted pure function value.
func (st *State) applyFuncVal(fv Val, args []Val) Val { return st.applyFuncValMode(fv, args, false) }

func (st *State) applyFuncValMode(fv Val, args []Val, pure bool) Val {
	sig := fv.Fn.Sig
	var terms, sorts []string
	for _, a := range args {
		terms = append(terms, flatten(a)...)
		for range flatten(a) {
			sorts = append(sorts, "Int")
		}
	}
	// argument sorts from values
	sorts = sorts[:0]
	for _, a := range args {
		sorts = append(sorts, flatSorts(a)...)
	}
	st.fc.noteAssumption("function-valued parameters are pure, total and deterministic")
	nres := sig.Results().Len()
	if nres == 0 {
		return Val{K: KUnit}
	}
	var outs []Val
	for i := 0; i < nres; i++ {
		rt := st.subst(sig.Results().At(i).Type())
		comps := flatComps(rt)
		rterms := make([]string, len(comps))
		for j, c := range comps {
			name := fmt.Sprintf("%s_r%d%s", fv.Fn.Sym, i, sanitize(c.Path))
			st.fc.declareFun(name, sorts, c.Sort)
			if len(terms) == 0 {
				rterms[j] = name
			} else {
				rterms[j] = sApp(name, terms...)
			}
		}
		v := unflatten(rt, rterms)
		if !pure {
			v = st.named(v, "app")
		}
		outs = append(outs, v)
	}
	if len(outs) == 1 {
		return outs[0]
	}
	return Val{K: KTuple, Sub: outs}
}

func flatSorts(v Val) []string {
	switch v.K {
	case KInt, KNil:
		return []string{"Int"}
	case KBool:
		return []string{"Bool"}
	case KRaw:
		return []string{v.Sort}
	case KUnit:
		return nil
	case KFunc:
		return []string{"Int"}
	}
	var out []string
	for _, s := range v.Sub {
		out = append(out, flatSorts(s)...)
	}
	return out
}

// ---------- builtins ----------

func (st *State) execBuiltin(name string, call *ast.CallExpr) []Outcome {
	one := func(vs ...Val) []Outcome { return []Outcome{{st: st, kind: oNormal, vals: vs}} }
	switch name {
	case "len":
		v := st.eval(call.Args[0])
		switch v.K {
		case KSlice, KString:
			return one(vInt(v.length(), intType))
		case KArray:
			return one(vInt(sInt(v.T.Underlying().(*types.Array).Len()), intType))
		case KInt:
			t := st.typeOf(call.Args[0])
			if classify(t) == tcMap {
				st.checkGuardedRead(call.Args[0])
				return one(vInt(st.mapSizeIn(nil, v, t), intType))
			}
			if p, ok := t.Underlying().(*types.Pointer); ok {
				if a, isArr := p.Elem().Underlying().(*types.Array); isArr {
					return one(vInt(sInt(a.Len()), intType))
				}
			}
		}
		panic(vcErr("len of unsupported operand " + exprStr(call.Args[0])))
	case "cap":
		v := st.eval(call.Args[0])
		if v.K == KSlice {
			return one(vInt(v.capa(), intType))
		}
		if v.K == KArray {
			return one(vInt(sInt(v.T.Underlying().(*types.Array).Len()), intType))
		}
		panic(vcErr("cap of unsupported operand"))
	case "panic":
		return []Outcome{{st: st, kind: oPanic}}
	case "make":
		t := st.subst(st.typeOf(call.Args[0]))
		switch classify(t) {
		case tcSlice:
			n := st.eval(call.Args[1])
			c := n
			if len(call.Args) > 2 {
				c = st.eval(call.Args[2])
			}
			st.oblige("bounds", "make-len("+exprStr(call)+")", sAnd(sCmp("<=", "0", n.S), sCmp("<=", n.S, c.S)), call.Pos())
			st.fc.noteAssumption("allocation succeeds; requested sizes below 2^48 elements are assumed available")
			st.assume(sCmp("<", c.S, sNum(pow2(maxLenBits))))
			return one(st.makeSlice(t, n.S, c.S))
		case tcMap:
			return one(st.newMap(t))
		}
		panic(vcErr("make of unsupported type " + t.String()))
	case "new":
		t := st.subst(st.typeOf(call.Args[0]))
		ref := st.allocObject(t)
		st.storePointee(ref, t, st.zeroVal(t))
		return one(vInt(ref, types.NewPointer(t)))
	case "copy":
		dst := st.eval(call.Args[0])
		src := st.eval(call.Args[1])
		return one(st.copyInto(dst, src))
	case "append":
		s := st.eval(call.Args[0])
		st0 := st.typeOf(call.Args[0])
		if call.Ellipsis.IsValid() {
			src := st.eval(call.Args[1])
			return one(st.appendSeq(s, st0, src))
		}
		var vals []Val
		et := sliceElemType(st.subst(st0))
		for _, a := range call.Args[1:] {
			vals = append(vals, st.coerce(st.eval(a), et))
		}
		return one(st.appendVals(s, st0, vals))
	case "min", "max":
		a := st.eval(call.Args[0])
		for _, e := range call.Args[1:] {
			b := st.eval(e)
			op := "<="
			if name == "max" {
				op = ">="
			}
			a = vInt(st.define(name, "Int", sIte(sCmp(op, a.S, b.S), a.S, b.S)), st.typeOf(call))
		}
		return one(a)
	case "delete":
		m := st.eval(call.Args[0])
		st.checkGuardedMutation(call.Args[0])
		k := st.eval(call.Args[1])
		st.mapDelete(m, st.typeOf(call.Args[0]), k, call.Pos(), exprStr(call.Args[0]))
		return one()
	case "clear":
		panic(vcErr("clear builtin not supported"))
	}
	panic(vcErr("unsupported builtin " + name))
}

func (st *State) makeSlice(t types.Type, n, c string) Val {
	arr := st.allocRef()
	et := sliceElemType(t)
	z := flatten(st.zeroVal(et))
	for i, cp := range flatComps(et) {
		name := elemHeapName(et, cp)
		h := st.heapGet(name, elemSort(cp))
		st.noteWrite(name, arr)
		st.heapSet(name, elemSort(cp), sStore(h, arr, "((as const (Array Int "+cp.Sort+")) "+z[i]+")"))
	}
	return mkSlice(t, arr, "0", n, c)
}

// copyInto models copy(dst, src) with memmove semantics; returns the count.
func (st *State) copyInto(dst, src Val) Val {
	n := st.define("ncopy", "Int", sIte(sCmp("<=", dst.length(), src.length()), dst.length(), src.length()))
	st.copyN(dst, src, n)
	return vInt(n, intType)
}

// copyN copies n elements from src[0:n] to dst[0:n].
func (st *State) copyN(dst, src Val, n string) {
	et := sliceElemType(dst.T)
	for _, cp := range flatComps(et) {
		name := elemHeapName(et, cp)
		h := st.heapGet(name, elemSort(cp))
		oldRow := sSel(h, dst.arr())
		var srcAt func(k string) string
		if src.K == KString {
			srcAt = func(k string) string { return src.at(k) }
		} else {
			srcRow := sSel(h, src.arr())
			srcAt = func(k string) string { return sSel(srcRow, sAdd(src.off(), k)) }
		}
		row := st.fc.fresh("row", "(Array Int "+cp.Sort+")")
		rel := sSub("g_k", dst.off())
		st.assume(fmt.Sprintf("(forall ((g_k Int)) (! (= (select %s g_k) %s) :pattern ((select %s g_k))))", row,
			sIte(sAnd(sCmp("<=", dst.off(), "g_k"), sCmp("<", "g_k", sAdd(dst.off(), n))), srcAt(rel), sSel(oldRow, "g_k")), row))
		st.noteWrite(name, dst.arr())
		st.heapSet(name, elemSort(cp), sStore(h, dst.arr(), row))
	}
}

// appendVals models append(s, v1..vk) without forking: in place when capacity suffices, else a fresh array.
func (st *State) appendVals(s Val, sT types.Type, vals []Val) Val {
	t := st.subst(sT)
	et := sliceElemType(t)
	k := int64(len(vals))
	if k == 0 {
		return s
	}
	newLen := st.define("len", "Int", sAdd(s.length(), sInt(k)))
	fits := st.define("fits", "Bool", sCmp("<=", newLen, s.capa()))
	fresh := st.allocRef()
	newCap := st.fc.fresh("cap", "Int")
	st.assume(sAnd(sCmp(">=", newCap, newLen), sCmp("<", newCap, sNum(pow2(maxLenBits)))))
	st.fc.noteAssumption("append: a reallocated slice gets an unspecified capacity >= the new length")
	arr := st.define("arr", "Int", sIte(fits, s.arr(), fresh))
	off := st.define("off", "Int", sIte(fits, s.off(), "0"))
	cp := st.define("cap", "Int", sIte(fits, s.capa(), newCap))
	comps := flatComps(et)
	for ci, c := range comps {
		name := elemHeapName(et, c)
		h := st.heapGet(name, elemSort(c))
		// in-place row
		rowIn := sSel(h, s.arr())
		for i, v := range vals {
			rowIn = sStore(rowIn, sAdd(sAdd(s.off(), s.length()), sInt(int64(i))), flatten(v)[ci])
		}
		// fresh row: old content moved to offset 0
		rowF := st.fc.fresh("row", "(Array Int "+c.Sort+")")
		st.assume(fmt.Sprintf("(forall ((g_k Int)) (! (=> (and (<= 0 g_k) (< g_k %s)) (= (select %s g_k) (select (select %s %s) (+ %s g_k)))) :pattern ((select %s g_k))))", s.length(), rowF, h, s.arr(), s.off(), rowF))
		rowF2 := rowF
		for i, v := range vals {
			rowF2 = sStore(rowF2, sAdd(s.length(), sInt(int64(i))), flatten(v)[ci])
		}
		st.noteWrite(name, s.arr())
		st.noteWrite(name, fresh)
		st.heapSet(name, elemSort(c), sIte(fits, sStore(h, s.arr(), rowIn), sStore(h, fresh, rowF2)))
	}
	return mkSlice(t, arr, off, newLen, cp)
}

// appendSeq models append(s, src...).
func (st *State) appendSeq(s Val, sT types.Type, src Val) Val {
	t := st.subst(sT)
	et := sliceElemType(t)
	n := src.length()
	newLen := st.define("len", "Int", sAdd(s.length(), n))
	fits := st.define("fits", "Bool", sCmp("<=", newLen, s.capa()))
	fresh := st.allocRef()
	newCap := st.fc.fresh("cap", "Int")
	st.assume(sAnd(sCmp(">=", newCap, newLen), sCmp("<", newCap, sNum(pow2(maxLenBits)))))
	st.assume(sCmp("<", newLen, sNum(pow2(maxLenBits))))
	arr := st.define("arr", "Int", sIte(fits, s.arr(), fresh))
	off := st.define("off", "Int", sIte(fits, s.off(), "0"))
	cp := st.define("cap", "Int", sIte(fits, s.capa(), newCap))
	for _, c := range flatComps(et) {
		name := elemHeapName(et, c)
		h := st.heapGet(name, elemSort(c))
		var srcAt func(k string) string
		if src.K == KString {
			srcAt = func(k string) string { return src.at(k) }
		} else {
			srcRow := sSel(h, src.arr())
			srcAt = func(k string) string { return sSel(srcRow, sAdd(src.off(), k)) }
		}
		oldRow := sSel(h, s.arr())
		row := st.fc.fresh("row", "(Array Int "+c.Sort+")")
		// in place: positions [off+len, off+len+n) get src; others unchanged.  fresh: [0,len) old content, [len,len+n) src.
		inPlace := sIte(sAnd(sCmp("<=", sAdd(s.off(), s.length()), "g_k"), sCmp("<", "g_k", sAdd(sAdd(s.off(), s.length()), n))),
			srcAt(sSub("g_k", sAdd(s.off(), s.length()))), sSel(oldRow, "g_k"))
		freshRow := sIte(sAnd(sCmp("<=", "0", "g_k"), sCmp("<", "g_k", s.length())), sSel(oldRow, sAdd(s.off(), "g_k")),
			sIte(sAnd(sCmp("<=", s.length(), "g_k"), sCmp("<", "g_k", newLen)), srcAt(sSub("g_k", s.length())), sSel(row, "g_k")))
		st.assume(fmt.Sprintf("(forall ((g_k Int)) (! (= (select %s g_k) %s) :pattern ((select %s g_k))))", row, sIte(fits, inPlace, freshRow), row))
		st.noteWrite(name, s.arr())
		st.noteWrite(name, fresh)
		st.heapSet(name, elemSort(c), sStore(h, arr, row))
	}
	return mkSlice(t, arr, off, newLen, cp)
}

// ---------- contract application ----------

func (st *State) applyContract(fct *FuncContract, fn *types.Func, recv *Val, args []Val, call *ast.CallExpr) []Val {
	fc := st.fc
	if g := fc.V.group; len(contractTags(fct)) > 0 {
		// proof groups are consistent across calls: only the callee's untagged clauses and those of the current group
		// apply (a caller verified outside every group sees the untagged clauses only)
		fct = filterContract(fct, g)
	}
	sig := fn.Type().(*types.Signature)
	names := map[string]Val{}
	if recv != nil && sig.Recv() != nil {
		rn := sig.Recv().Name()
		if fi := fc.V.funcInfo(fn); fi != nil && fi.Decl.Recv != nil && len(fi.Decl.Recv.List[0].Names) == 1 {
			rn = fi.Decl.Recv.List[0].Names[0].Name
		}
		if rn != "" && rn != "_" {
			names[rn] = *recv
		}
		names["recv"] = *recv
	}
	for i := 0; i < sig.Params().Len() && i < len(args); i++ {
		p := sig.Params().At(i)
		a := args[i]
		if a.T == nil || a.K == KInt {
			// keep the caller's (instantiated) static type when known
			if a.T == nil {
				a.T = p.Type()
			}
		}
		if p.Name() != "" && p.Name() != "_" {
			names[p.Name()] = a
		}
		names[fmt.Sprintf("arg%d", i+1)] = a
	}
	for _, gp := range fct.GhostParams {
		if v, ok := st.ghost[gp]; ok {
			names[gp] = v
			continue
		}
		found := false
		for o, v := range st.vars {
			if o.Name() == gp && v.K == KInt {
				names[gp] = v
				found = true
			}
		}
		if !found {
			panic(vcErr("call of " + fct.Key + " needs a ghost or local variable named " + gp + " for its ghost parameter"))
		}
	}
	pos := token.NoPos
	what := fct.Pkg + "." + fct.Key
	pkgInfo := fc.V.pkgByName[fct.Pkg]
	mkEnv := func(s *State, nm map[string]Val, old *Snapshot) *SpecEnv {
		q := 0
		return &SpecEnv{st: s, old: old, names: nm, pkg: pkgInfo, what: what, qcount: &q}
	}
	ord := 0
	if call != nil {
		pos = call.Pos()
		ord = fc.callOrd[call]
	}
	tag := fmt.Sprintf("call%d:%s", ord, fct.Key)
	if fct.Trusted {
		fc.noteAssumption("trusted contract: " + what)
	}
	fc.noteCallee(what)
	// preconditions
	env := mkEnv(st, names, nil)
	for i, r := range fct.Requires {
		st.oblige("call-pre", fmt.Sprintf("%s/requires%d", tag, i+1), env.evalBool(r.Expr), pos)
	}
	st.checkCallLocks(fct, names, tag, pos)
	old := st.snapshot(names)
	// allocation may have happened inside the callee: the counter moves first, so that whatever the callee stored
	// into its footprint is typed against the new counter (it may store references it allocated itself)
	if !fct.NoAlloc {
		newAlloc := fc.fresh("alloc", "Int")
		if fct.Allocates > 0 {
			st.assume(sEq(newAlloc, sAdd(st.alloc, sInt(int64(fct.Allocates)))))
		} else {
			st.assume(sCmp(">=", newAlloc, st.alloc))
		}
		st.alloc = newAlloc
	}
	// frame: havoc the modifies footprint
	st.havocTargets(mkEnv(st, names, nil), fct.Modifies, old)
	// results
	var results []Val
	var rtypes []types.Type
	if call != nil {
		switch t := st.typeOf(call).(type) {
		case *types.Tuple:
			for i := 0; i < t.Len(); i++ {
				rtypes = append(rtypes, t.At(i).Type())
			}
		case nil:
		default:
			rtypes = append(rtypes, t)
		}
	} else {
		for i := 0; i < sig.Results().Len(); i++ {
			rtypes = append(rtypes, sig.Results().At(i).Type())
		}
	}
	// allocation may have happened inside the callee
	if !fct.NoAlloc {
		st.havocFreshHeaps(rtypes, old)
	}
	rn := map[string]Val{}
	for k, v := range names {
		rn[k] = v
	}
	for i, rt := range rtypes {
		v := st.freshVal(fmt.Sprintf("res%d_%s", i+1, fn.Name()), st.subst(rt))
		results = append(results, v)
		rn[fmt.Sprintf("result%d", i+1)] = v
		if i == 0 {
			rn["result"] = v
		}
		if i < sig.Results().Len() && sig.Results().At(i).Name() != "" {
			rn[sig.Results().At(i).Name()] = v
		}
	}
	for _, g := range fct.Ghosts {
		if g.Kind != "ghost" {
			continue
		}
		// a ghost that the callee never reassigns is a name for an entry-state expression: evaluate it in the
		// state before the call; other function-level ghosts are existentially quantified for the caller: fresh symbols
		reassigned := false
		for _, a := range fct.Anchors {
			for _, c := range a.Clauses {
				if c.Kind == "ghost" && c.Name == g.Name {
					reassigned = true
				}
			}
		}
		if !reassigned && !(g.Expr.Op == "call" && (g.Expr.Text == "anyseq" || g.Expr.Text == "witness" || g.Expr.Text == "seqdef")) {
			var ev Val
			ok := func() (ok bool) {
				defer func() {
					if r := recover(); r != nil {
						if _, isVC := r.(vcErr); !isVC {
							panic(r)
						}
						ok = false
					}
				}()
				ev = mkEnv(st, names, old).inOld().eval(g.Expr)
				return true
			}()
			if ok {
				rn[g.Name] = ev
				continue
			}
		}
		if g.Expr.Op == "call" && (g.Expr.Text == "anyseq" || g.Expr.Text == "idseq") {
			rn[g.Name] = vRaw(fc.fresh("ghost_"+g.Name, "(Array Int Int)"), "(Array Int Int)")
		} else {
			rn[g.Name] = vInt(fc.fresh("ghost_"+g.Name, "Int"), nil)
		}
	}
	for _, g := range fct.Ghosts {
		if g.Kind == "ghost" {
			// the callee's ghost results stay visible to the caller's later anchors as last_<name>
			st.ghost["last_"+g.Name] = rn[g.Name]
			if fc.rec != nil {
				fc.rec.ghosts["last_"+g.Name] = true
			}
		}
	}
	for _, tn := range fct.Traced {
		rn["tr_"+tn] = vRaw(fc.fresh("ghost_tr_"+tn, "(Array Int Int)"), "(Array Int Int)")
		rn["ntr_"+tn] = vInt(fc.fresh("ghost_ntr_"+tn, "Int"), nil)
	}
	env2 := mkEnv(st, rn, old)
	for _, e := range fct.Ensures {
		st.assume(env2.evalBool(e.Expr))
	}
	st.applyCallLockEffects(fct, names)
	if call != nil && fc.inlineDepth == 0 && call != fc.topCall {
		// a contracted call nested in an expression (e.g. an if condition): its after-call anchor runs right here
		if ord, ok := fc.callOrd[call]; ok {
			st.runAnchor(fmt.Sprintf("after-call%d", ord), call.End())
		}
	}
	return results
}

func (fc *FuncCtx) noteCallee(name string) {
	if fc.callees == nil {
		fc.callees = map[string]bool{}
	}
	fc.callees[name] = true
}

// havocFreshHeaps: heaps reachable from result types may have changed at freshly allocated ids.
func (st *State) havocFreshHeaps(rtypes []types.Type, old *Snapshot) {
	seen := map[string]bool{}
	var visit func(t types.Type, depth int)
	visit = func(t types.Type, depth int) {
		if depth > 3 || t == nil {
			return
		}
		switch classify(t) {
		case tcSlice:
			et := sliceElemType(t)
			for _, c := range flatComps(et) {
				name := elemHeapName(et, c)
				if !seen[name] {
					seen[name] = true
					st.havocAbove(name, elemSort(c), old.alloc, true)
				}
			}
			visit(et, depth+1)
		case tcPtr:
			p, ok := t.Underlying().(*types.Pointer)
			if !ok {
				return
			}
			for _, c := range flatComps(p.Elem()) {
				name := ptrHeapName(p.Elem(), c)
				if !seen[name] {
					seen[name] = true
					st.havocAbove(name, ptrSort(c), old.alloc, false)
				}
			}
			if s, ok := p.Elem().Underlying().(*types.Struct); ok {
				for i := 0; i < s.NumFields(); i++ {
					visit(s.Field(i).Type(), depth+1)
				}
			}
		case tcStruct:
			s := t.Underlying().(*types.Struct)
			for i := 0; i < s.NumFields(); i++ {
				visit(s.Field(i).Type(), depth+1)
			}
		}
	}
	for _, t := range rtypes {
		visit(st.subst(t), 0)
	}
}

// havocAbove replaces a heap by a fresh one that agrees with the old one on all ids below `alloc`.
func (st *State) havocAbove(name, sort, alloc string, twoLevel bool) {
	if st.havocked[name] {
		return
	}
	oldH := st.heapGet(name, sort)
	h := st.heapHavoc(name, sort)
	// unchanged below the old counter (existing objects are framed separately) AND at or above the new counter
	// (cells that are still unallocated after the call cannot have been written)
	st.assume(fmt.Sprintf("(forall ((g_a Int)) (! (=> (or (< g_a %s) (>= g_a %s)) (= (select %s g_a) (select %s g_a))) :pattern ((select %s g_a))))", alloc, st.alloc, h, oldH, h))
}

type target struct {
	kind string // "elems" | "field" | "var" | "fieldset"
	arr, lo, hi string
	ref  string
	cond string // fieldset: membership condition over the reference variable g_a
}

// havocTargets havocs exactly the footprint named by modifies clauses.
func (st *State) havocTargets(env *SpecEnv, mods []*Clause, old *Snapshot) {
	type hv struct {
		sort    string
		targets []target
		two     bool
	}
	heaps := map[string]*hv{}
	add := func(name, sort string, two bool, t target) {
		h := heaps[name]
		if h == nil {
			h = &hv{sort: sort, two: two}
			heaps[name] = h
		}
		h.targets = append(h.targets, t)
	}
	var varTargets []types.Object
	for _, m := range mods {
		for _, e := range m.List {
			st.resolveTarget(env, e, add, &varTargets)
		}
	}
	st.havocked = map[string]bool{}
	var names []string
	for n := range heaps {
		names = append(names, n)
	}
	sortStrings(names)
	for _, n := range names {
		h := heaps[n]
		oldH := st.heapGet(n, h.sort)
		newH := st.heapHavoc(n, h.sort)
		st.havocked[n] = true
		for _, t := range h.targets {
			if h.two {
				st.noteWrite(n, t.arr)
			} else if t.cond != "" {
				st.noteUnknownWrite(n)
			} else {
				st.noteWrite(n, t.ref)
			}
		}
		all := false
		for _, t := range h.targets {
			if t.kind == "allelems" {
				all = true
			}
		}
		if all {
			st.noteUnknownWrite(n)
			continue
		}
		if h.two {
			var in []string
			for _, t := range h.targets {
				if t.kind == "maprow" {
					in = append(in, sEq("g_a", t.arr))
					continue
				}
				in = append(in, sAnd(sEq("g_a", t.arr), sCmp("<=", t.lo, "g_i"), sCmp("<", "g_i", t.hi)))
			}
			st.assume(fmt.Sprintf("(forall ((g_a Int) (g_i Int)) (! (=> (and (< g_a %s) (not %s)) (= (select (select %s g_a) g_i) (select (select %s g_a) g_i))) :pattern ((select (select %s g_a) g_i))))",
				old.alloc, sOr(in...), newH, oldH, newH))
			// row-level consequence (extensionality): arrays not named by any target are untouched as a whole
			var notArr []string
			for _, t := range h.targets {
				notArr = append(notArr, sNot(sEq("g_a", t.arr)))
			}
			st.assume(fmt.Sprintf("(forall ((g_a Int)) (! (=> (and (< g_a %s) %s) (= (select %s g_a) (select %s g_a))) :pattern ((select %s g_a))))",
				old.alloc, sAnd(notArr...), newH, oldH, newH))
		} else {
			var in []string
			for _, t := range h.targets {
				if t.cond != "" {
					in = append(in, t.cond)
				} else {
					in = append(in, sEq("g_a", t.ref))
				}
			}
			st.assume(fmt.Sprintf("(forall ((g_a Int)) (! (=> (and (< g_a %s) (not %s)) (= (select %s g_a) (select %s g_a))) :pattern ((select %s g_a))))",
				old.alloc, sOr(in...), newH, oldH, newH))
		}
	}
	for _, o := range varTargets {
		st.vars[o] = st.freshVal(o.Name(), o.Type())
		if st.fc.rec != nil {
			st.fc.rec.vars[o] = true
		}
	}
}

func sortStrings(s []string) {
	for i := 1; i < len(s); i++ {
		for j := i; j > 0 && s[j] < s[j-1]; j-- {
			s[j], s[j-1] = s[j-1], s[j]
		}
	}
}

// resolveTarget translates a modifies target expression into heap footprints.
func (st *State) resolveTarget(env *SpecEnv, e *SNode, add func(name, sort string, two bool, t target), vars *[]types.Object) {
	if e.Op == "call" && e.Text == "elemIndex" && len(e.Args) == 1 {
		// the field "index" of every element pointed to by the slice s; membership of a reference r is decided by
		// its own (old) index field: 0 <= r.index < len(s) && s[r.index] == r  (valid under idxOK(s))
		sv := env.eval(e.Args[0])
		if sv.K != KSlice {
			env.fail("elemIndex needs a slice of pointers")
		}
		pt, ok := sliceElemType(sv.T).Underlying().(*types.Pointer)
		if !ok {
			env.fail("elemIndex needs a slice of pointers")
		}
		structT := pt.Elem()
		_, comps, _ := fieldComps(structT, "index")
		if len(comps) != 1 {
			env.fail("elemIndex: element type has no scalar field index")
		}
		hname := ptrHeapName(structT, comps[0])
		hidx := st.heapIn(env.heapMap(), hname, ptrSort(comps[0]))
		et := sliceElemType(sv.T)
		ecs := flatComps(et)
		hel := st.heapIn(env.heapMap(), elemHeapName(et, ecs[0]), elemSort(ecs[0]))
		_ = hidx
		// membership of reference g_a in s: some slot of (old) s holds it
		cond := fmt.Sprintf("(not (forall ((g_mk Int)) (=> (and (<= %s g_mk) (< g_mk %s)) (not (= (select (select %s %s) g_mk) g_a)))))", sv.off(), sAdd(sv.off(), sv.length()), hel, sv.arr())
		add(hname, ptrSort(comps[0]), false, target{kind: "fieldset", cond: cond})
		return
	}
	if e.Op == "call" && e.Text == "mapOf" && len(e.Args) == 1 {
		// every entry (and the size) of the map object m
		base := env.eval(e.Args[0])
		if base.K != KInt || base.T == nil || classify(base.T) != tcMap {
			env.fail("mapOf needs a map")
		}
		dom, size, vals, vcomps, _, _ := mapHeapNames(base.T)
		add(dom, "(Array Int (Array Int Bool))", true, target{kind: "maprow", arr: base.S, lo: "0", hi: "0"})
		for i, vn := range vals {
			add(vn, "(Array Int (Array Int "+vcomps[i].Sort+"))", true, target{kind: "maprow", arr: base.S, lo: "0", hi: "0"})
		}
		add(size, "(Array Int Int)", false, target{kind: "field", ref: base.S})
		return
	}
	if e.Op == "call" && (e.Text == "anyof" || e.Text == "anyelems") && len(e.Args) == 1 && e.Args[0].Op == "sel" && e.Args[0].Args[0].Op == "id" {
		// anyof(T.f): field f of every T object; anyelems(T.f): every cell of the element heap of the slice field f
		tn, fn := e.Args[0].Args[0].Text, e.Args[0].Text
		var structT types.Type
		if env.pkg != nil {
			if o := env.pkg.Types.Scope().Lookup(tn); o != nil {
				structT = o.Type()
			}
		}
		if structT == nil {
			env.fail("%s: unknown type %s", e.Text, tn)
		}
		if gh := ghostFieldHeap(structT, fn); gh != "" && e.Text == "anyof" {
			add(gh, ghostFieldSort(structT, fn), false, target{kind: "fieldset", cond: "true"})
			return
		}
		ft, comps, _ := fieldComps(structT, fn)
		if ft == nil {
			env.fail("%s: no field %s in %s", e.Text, fn, tn)
		}
		if e.Text == "anyof" {
			for _, c := range comps {
				add(ptrHeapName(structT, c), ptrSort(c), false, target{kind: "fieldset", cond: "true"})
			}
			return
		}
		if classify(ft) != tcSlice {
			env.fail("anyelems needs a slice field")
		}
		et := sliceElemType(ft)
		for _, c := range flatComps(et) {
			add(elemHeapName(et, c), elemSort(c), true, target{kind: "allelems", arr: "(- 1)", lo: "0", hi: "0"})
		}
		return
	}
	switch e.Op {
	case "slice", "id", "sel", "index", "un":
	default:
		env.fail("unsupported modifies target %s", e.String())
	}
	if e.Op == "un" && e.Text == "*" {
		// whole pointee
		p := env.eval(e.Args[0])
		if p.K == KPtrVar {
			*vars = append(*vars, p.Obj)
			return
		}
		pt := p.T.Underlying().(*types.Pointer).Elem()
		for _, c := range flatComps(pt) {
			add(ptrHeapName(pt, c), ptrSort(c), false, target{kind: "field", ref: p.S})
		}
		return
	}
	if e.Op == "sel" {
		base := env.eval(e.Args[0])
		if base.K == KInt && base.T != nil {
			if s, structT := structOf(base.T); s != nil {
				if gh := ghostFieldHeap(structT, e.Text); gh != "" {
					// a ghost field of the object
					if srt := ghostFieldSort(structT, e.Text); srt != "(Array Int Int)" {
						add(gh, srt, true, target{kind: "maprow", arr: base.S, lo: "0", hi: "0"})
					} else {
						add(gh, srt, false, target{kind: "field", ref: base.S})
					}
					return
				}
				_, comps, _ := fieldComps(structT, e.Text)
				if comps == nil {
					// promoted field of an embedded struct (one level)
					for i := 0; i < s.NumFields() && comps == nil; i++ {
						if f := s.Field(i); f.Embedded() {
							if _, isStruct := f.Type().Underlying().(*types.Struct); isStruct {
								_, outer, _ := fieldComps(structT, f.Name())
								for _, c := range outer {
									if strings.HasPrefix(c.Path, "."+f.Name()+"."+e.Text+".") || c.Path == "."+f.Name()+"."+e.Text {
										comps = append(comps, c)
									}
								}
							}
						}
					}
				}
				if comps == nil {
					env.fail("modifies: no field %s", e.Text)
				}
				for _, c := range comps {
					add(ptrHeapName(structT, c), ptrSort(c), false, target{kind: "field", ref: base.S})
				}
				return
			}
		}
		if base.K == KPtrVar {
			*vars = append(*vars, base.Obj)
			return
		}
		if base.K == KPtrElem && base.Sort == "field" {
			// pointer to an embedded struct field of a heap object: (ref, outer struct, field) . name
			outerT := base.Sub[1].T
			_, comps, _ := fieldComps(outerT, base.S)
			found := false
			for _, c := range comps {
				if strings.HasPrefix(c.Path, "."+base.S+"."+e.Text+".") || c.Path == "."+base.S+"."+e.Text {
					add(ptrHeapName(outerT, c), ptrSort(c), false, target{kind: "field", ref: base.Sub[0].S})
					found = true
				}
			}
			if found {
				return
			}
		}
		env.fail("unsupported modifies target %s", e.String())
	}
	if e.Op == "index" {
		base := env.eval(e.Args[0])
		idx := env.eval(e.Args[1])
		if base.K == KInt && base.T != nil && classify(base.T) == tcMap {
			// m[k]: the entry k of the map object m (its presence, its value, and the map's size)
			dom, size, vals, vcomps, _, _ := mapHeapNames(base.T)
			key := st.mapKeyTerm(idx, st.subst(base.T.Underlying().(*types.Map).Key()))
			add(dom, "(Array Int (Array Int Bool))", true, target{kind: "elems", arr: base.S, lo: key, hi: sAdd(key, "1")})
			for i, vn := range vals {
				add(vn, "(Array Int (Array Int "+vcomps[i].Sort+"))", true, target{kind: "elems", arr: base.S, lo: key, hi: sAdd(key, "1")})
			}
			add(size, "(Array Int Int)", false, target{kind: "field", ref: base.S})
			return
		}
		if base.K != KSlice {
			env.fail("modifies target %s is not a slice element", e.String())
		}
		et := sliceElemType(base.T)
		for _, c := range flatComps(et) {
			add(elemHeapName(et, c), elemSort(c), true, target{kind: "elems", arr: base.arr(), lo: sAdd(base.off(), idx.S), hi: sAdd(sAdd(base.off(), idx.S), "1")})
		}
		return
	}
	// slice or identifier denoting a slice: elements [lo,hi)
	var base Val
	lo, hi := "0", ""
	if e.Op == "slice" {
		base = env.eval(e.Args[0])
		if e.Args[1] != nil {
			lo = env.eval(e.Args[1]).S
		}
		if e.Args[2] != nil {
			hi = env.eval(e.Args[2]).S
		}
	} else {
		base = env.eval(e)
	}
	if base.K != KSlice {
		env.fail("modifies target %s is not a slice", e.String())
	}
	if hi == "" {
		hi = base.length()
	}
	et := sliceElemType(base.T)
	for _, c := range flatComps(et) {
		add(elemHeapName(et, c), elemSort(c), true, target{kind: "elems", arr: base.arr(), lo: sAdd(base.off(), lo), hi: sAdd(base.off(), hi)})
	}
}

// ---------- maps (reference semantics; scalar keys) ----------

func mapHeapNames(t types.Type) (dom, size string, vals []string, vcomps []Comp, kt, vt types.Type) {
	m := t.Underlying().(*types.Map)
	key := typeKey(m) // named map types (KV[K,V]) share the heap of their underlying map type
	kt, vt = m.Key(), m.Elem()
	dom = "M!" + key + "!dom"
	size = "M!" + key + "!size"
	vcomps = flatComps(vt)
	for _, c := range vcomps {
		vals = append(vals, "M!"+key+"!val"+c.Path)
	}
	return
}

func (st *State) mapKeyTerm(k Val, kt types.Type) string {
	cs := flatComps(kt)
	if len(cs) != 1 || cs[0].Sort != "Int" {
		panic(vcErr("map key type " + kt.String() + " is not scalar in the model"))
	}
	if k.K == KNil {
		return "0"
	}
	return k.S
}

func (st *State) newMap(t types.Type) Val {
	ref := st.allocRef()
	dom, size, vals, vcomps, _, vt := mapHeapNames(t)
	hd := st.heapGet(dom, "(Array Int (Array Int Bool))")
	st.heapSet(dom, "(Array Int (Array Int Bool))", sStore(hd, ref, "((as const (Array Int Bool)) false)"), ref)
	hs := st.heapGet(size, "(Array Int Int)")
	st.heapSet(size, "(Array Int Int)", sStore(hs, ref, "0"), ref)
	z := flatten(st.zeroVal(vt))
	for i, vn := range vals {
		srt := "(Array Int (Array Int " + vcomps[i].Sort + "))"
		h := st.heapGet(vn, srt)
		st.heapSet(vn, srt, sStore(h, ref, "((as const (Array Int "+vcomps[i].Sort+")) "+z[i]+")"), ref)
	}
	return vInt(ref, t)
}

func (st *State) mapLookup(m Val, t types.Type, k Val) (Val, string) {
	return st.mapLookupIn(nil, m, t, k)
}

func (st *State) mapLookupIn(heap map[string]string, m Val, t types.Type, k Val) (Val, string) {
	dom, _, vals, vcomps, kt, vt := mapHeapNames(t)
	kt2 := st.subst(kt)
	key := st.mapKeyTerm(k, kt2)
	mref := m.S
	if m.K == KNil {
		mref = "0"
	}
	hd := st.heapIn(heap, dom, "(Array Int (Array Int Bool))")
	present := sSel(sSel(hd, mref), key)
	z := flatten(st.zeroVal(st.subst(vt)))
	terms := make([]string, len(vals))
	for i, vn := range vals {
		srt := "(Array Int (Array Int " + vcomps[i].Sort + "))"
		h := st.heapIn(heap, vn, srt)
		terms[i] = sIte(present, sSel(sSel(h, mref), key), z[i])
	}
	return unflatten(st.subst(vt), terms), present
}

func (st *State) mapSizeIn(heap map[string]string, m Val, t types.Type) string {
	_, size, _, _, _, _ := mapHeapNames(t)
	hs := st.heapIn(heap, size, "(Array Int Int)")
	mref := m.S
	if m.K == KNil {
		return "0"
	}
	sz := sSel(hs, mref)
	return sz
}

func (st *State) mapStore(m Val, t types.Type, k Val, v Val, pos token.Pos, what string) {
	dom, size, vals, vcomps, kt, _ := mapHeapNames(t)
	key := st.mapKeyTerm(k, st.subst(kt))
	st.oblige("nil", "map-write("+what+")", sNot(sEq(m.S, "0")), pos)
	hd := st.heapGet(dom, "(Array Int (Array Int Bool))")
	present := st.define("present", "Bool", sSel(sSel(hd, m.S), key))
	st.heapSet(dom, "(Array Int (Array Int Bool))", sStore(hd, m.S, sStore(sSel(hd, m.S), key, "true")), m.S)
	hs := st.heapGet(size, "(Array Int Int)")
	st.heapSet(size, "(Array Int Int)", sStore(hs, m.S, sIte(present, sSel(hs, m.S), sAdd(sSel(hs, m.S), "1"))), m.S)
	terms := flatten(v)
	for i, vn := range vals {
		srt := "(Array Int (Array Int " + vcomps[i].Sort + "))"
		h := st.heapGet(vn, srt)
		st.heapSet(vn, srt, sStore(h, m.S, sStore(sSel(h, m.S), key, terms[i])), m.S)
	}
}

func (st *State) mapDelete(m Val, t types.Type, k Val, pos token.Pos, what string) {
	dom, size, _, _, kt, _ := mapHeapNames(t)
	key := st.mapKeyTerm(k, st.subst(kt))
	if m.K == KNil {
		return
	}
	hd := st.heapGet(dom, "(Array Int (Array Int Bool))")
	present := st.define("present", "Bool", sSel(sSel(hd, m.S), key))
	// delete on a nil map is a no-op
	st.heapSet(dom, "(Array Int (Array Int Bool))", sIte(sEq(m.S, "0"), hd, sStore(hd, m.S, sStore(sSel(hd, m.S), key, "false"))), m.S)
	hs := st.heapGet(size, "(Array Int Int)")
	st.heapSet(size, "(Array Int Int)", sIte(sAnd(present, sNot(sEq(m.S, "0"))), sStore(hs, m.S, sSub(sSel(hs, m.S), "1")), hs), m.S)
}

// ---------- lock discipline hooks (filled in by conc.go) ----------

func (st *State) checkGuardedWrite(structT types.Type, field string, ref Val, x *ast.SelectorExpr) {
	st.guardCheck(structT, field, ref, true, x.Pos(), exprStr(x))
}

func (st *State) checkGuardedRead(e ast.Expr) {
	if sel, ok := ast.Unparen(e).(*ast.SelectorExpr); ok {
		if s, ok := st.info().Selections[sel]; ok && s.Kind() == types.FieldVal {
			bt := st.typeOf(sel.X)
			if _, structT := structOf(bt); structT != nil {
				st.guardCheck(structT, sel.Sel.Name, Val{}, false, sel.Pos(), exprStr(sel))
			}
		}
	}
}

// checkGuardedMutation: mutating the map (or other object) a guarded field refers to needs the write lock
func (st *State) checkGuardedMutation(e ast.Expr) {
	if sel, ok := ast.Unparen(e).(*ast.SelectorExpr); ok {
		if s, ok := st.info().Selections[sel]; ok && s.Kind() == types.FieldVal {
			if _, structT := structOf(st.typeOf(sel.X)); structT != nil {
				st.guardCheck(structT, sel.Sel.Name, Val{}, true, sel.Pos(), exprStr(sel))
			}
		}
	}
}

func lockKey(s string) string { return strings.ReplaceAll(s, " ", "") }

// calleePanicCond evaluates the disjunction of a callee's panics_if clauses at the call site.
func (st *State) calleePanicCond(fct *FuncContract, fn *types.Func, recv *Val, args []Val) string {
	sig := fn.Type().(*types.Signature)
	names := map[string]Val{}
	if recv != nil && sig.Recv() != nil {
		rn := sig.Recv().Name()
		if fi := st.fc.V.funcInfo(fn); fi != nil && fi.Decl.Recv != nil && len(fi.Decl.Recv.List[0].Names) == 1 {
			rn = fi.Decl.Recv.List[0].Names[0].Name
		}
		if rn != "" && rn != "_" {
			names[rn] = *recv
		}
	}
	for i := 0; i < sig.Params().Len() && i < len(args); i++ {
		if n := sig.Params().At(i).Name(); n != "" && n != "_" {
			a := args[i]
			if a.T == nil {
				a.T = sig.Params().At(i).Type()
			}
			names[n] = a
		}
	}
	q := 0
	env := &SpecEnv{st: st, names: names, pkg: st.fc.V.pkgByName[fct.Pkg], what: fct.Pkg + "." + fct.Key + "/panics_if", qcount: &q}
	var ds []string
	for _, p := range fct.PanicsIf {
		ds = append(ds, env.evalBool(p.Expr))
	}
	return st.define("calleepanics", "Bool", sOr(ds...))
}

// contractForInst finds "key@name" for the first function-typed argument that is a declared function.
func (V *Verifier) contractForInst(fn *types.Func, args []Val) *FuncContract {
	pkg, key := funcKey(fn)
	pc := V.contractsByName[pkg]
	if pc == nil {
		return nil
	}
	for _, a := range args {
		if a.K == KFunc && a.Obj != nil {
			if f, ok := a.Obj.(*types.Func); ok {
				if c := pc.Funcs[key+"@"+f.Name()]; c != nil {
					return c
				}
			}
		}
	}
	return nil
}

// applyOpaque applies a function value that is only known as an opaque token (e.g. a comparator stored in a field).
// It is an uninterpreted function of the token and the flattened arguments: pure and deterministic during a call.
func (st *State) applyOpaque(fv Val, ft types.Type, args []Val) Val {
	sig, ok := ft.Underlying().(*types.Signature)
	if !ok {
		panic(vcErr("call of non-function value"))
	}
	st.fc.noteAssumption("function values stored in fields (comparators) are pure and deterministic for the duration of a call")
	terms := []string{fv.S}
	sorts := []string{"Int"}
	for _, a := range args {
		terms = append(terms, flatten(a)...)
		sorts = append(sorts, flatSorts(a)...)
	}
	var outs []Val
	for i := 0; i < sig.Results().Len(); i++ {
		rt := st.subst(sig.Results().At(i).Type())
		comps := flatComps(rt)
		rterms := make([]string, len(comps))
		for j, c := range comps {
			name := fmt.Sprintf("g_app%d_%s_r%d%s", len(terms)-1, sanitize(strings.Join(sorts, "")), i, sanitize(c.Path))
			st.fc.declareFun(name, sorts, c.Sort)
			rterms[j] = sApp(name, terms...)
		}
		outs = append(outs, unflatten(rt, rterms))
	}
	if len(outs) == 0 {
		return Val{K: KUnit}
	}
	if len(outs) == 1 {
		return outs[0]
	}
	return Val{K: KTuple, Sub: outs}
}
