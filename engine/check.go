package main

import (
	"bytes"
	"context"
	"encoding/json"
	"flag"
	"os/exec"
	"fmt"
	"os"
	"path/filepath"
	"sort"
	"strings"
	"time"
)

type PropSpec struct {
	Title       string   `json:"title"`
	Level       string   `json:"level"` // proof | other
	Functions   []string `json:"functions"`
	Lemmas      []string `json:"lemmas"`
	Load        []string `json:"load"` // extra package patterns whose SOURCE is loaded (dependency functions verified, not assumed)
	Bounded     []BoundedSpec `json:"bounded"` // bounded stand-ins (executable harness injected by overlay); never counted as proved
	Assumptions []string `json:"assumptions"`  // property-level assumptions (stated)
	NotCovered  []string `json:"not_covered"`  // clauses of the property this check does not decide
	Explanation string   `json:"explanation"`
}

type BoundedSpec struct {
	Race bool `json:"race,omitempty"` // run under the Go race detector (sampled schedules, not exhaustive)
	Name string `json:"name"`
	Pkg  string `json:"pkg"`  // package directory under the repository
	File string `json:"file"` // harness source under /verif
	Run  string `json:"run"`  // test name
	What string `json:"what"`
}

type BoundedResult struct {
	Name     string   `json:"name"`
	Cases    int      `json:"cases"`
	Failures int      `json:"failures"`
	Bound    string   `json:"bound"`
	WallS    float64  `json:"wall_s"`
	FailLines []string `json:"fail_lines,omitempty"`
	Error    string   `json:"error,omitempty"`
	What     string   `json:"what"`
}

func runBounded(repo, verif string, b BoundedSpec, tier, wd string) *BoundedResult {
	r := &BoundedResult{Name: b.Name, What: b.What}
	t0 := time.Now()
	src := filepath.Join(verif, b.File)
	if _, err := os.Stat(src); err != nil {
		r.Error = "harness file missing: " + src
		return r
	}
	ov := map[string]map[string]string{"Replace": {filepath.Join(repo, b.Pkg, "zz_govc_harness_test.go"): src}}
	ovData, _ := json.Marshal(ov)
	ovFile := filepath.Join(wd, "overlay_"+b.Name+".json")
	os.WriteFile(ovFile, ovData, 0o644)
	ctx, cancel := context.WithTimeout(context.Background(), 20*time.Minute)
	defer cancel()
	goArgs := []string{"test", "-overlay", ovFile, "-vet=off", "-timeout", "15m", "-count=1", "-run", "^" + b.Run + "$", "-v"}
	if b.Race {
		goArgs = append(goArgs, "-race")
	}
	goArgs = append(goArgs, ".")
	cmd := exec.CommandContext(ctx, "go", goArgs...)
	cmd.Dir = filepath.Join(repo, b.Pkg)
	cmd.Env = append(os.Environ(), "GOFLAGS=-mod=mod", "GOPROXY=off", "GOSUMDB=off", "GOTOOLCHAIN=local", "VERIF_TIER="+tier)
	var out bytes.Buffer
	cmd.Stdout = &out
	cmd.Stderr = &out
	err := cmd.Run()
	r.WallS = round3(time.Since(t0).Seconds())
	seen := false
	for _, l := range strings.Split(out.String(), "\n") {
		if strings.HasPrefix(l, "GOVC-FAIL") {
			r.FailLines = append(r.FailLines, l)
		}
		if strings.HasPrefix(l, "GOVC-BOUNDED") {
			seen = true
			fmt.Sscanf(afterKey(l, "cases="), "%d", &r.Cases)
			fmt.Sscanf(afterKey(l, "failures="), "%d", &r.Failures)
			if k := strings.Index(l, "bound=\""); k >= 0 {
				r.Bound = strings.TrimSuffix(l[k+7:], "\"")
			}
		}
	}
	if strings.Contains(out.String(), "WARNING: DATA RACE") {
		r.FailLines = append(r.FailLines, "GOVC-FAIL the Go race detector reported a data race: "+firstLines(out.String()[strings.Index(out.String(), "WARNING: DATA RACE"):], 14))
	}
	if r.Failures < len(r.FailLines) {
		r.Failures = len(r.FailLines)
	}
	if !seen {
		// the harness did not complete: compile error, panic outside a guard, or timeout
		tail := out.String()
		if len(tail) > 1500 {
			tail = tail[len(tail)-1500:]
		}
		r.Error = fmt.Sprintf("harness did not complete (%v): %s", err, tail)
		if strings.Contains(out.String(), "panic:") || strings.Contains(out.String(), "fatal error:") {
			r.Failures++
			r.FailLines = append(r.FailLines, "GOVC-FAIL harness aborted by a panic in the code under test: "+firstLines(tail, 12))
		}
	}
	return r
}

func afterKey(l, key string) string {
	if k := strings.Index(l, key); k >= 0 {
		return l[k+len(key):]
	}
	return ""
}

type KnownFinding struct {
	Property   string `json:"property"`
	Status     string `json:"status"` // "known" | "fixed"
	Obligation string `json:"obligation"`
	What       string `json:"what"`
	Commit     string `json:"commit,omitempty"`
}

type ReplayFile struct {
	Property   string            `json:"property"`
	Obligation string            `json:"obligation"`
	Kind       string            `json:"kind"`
	Function   string            `json:"function"`
	Position   string            `json:"position"`
	Status     string            `json:"status"`
	Solver     string            `json:"solver"`
	SolverOut  string            `json:"solver_output"`
	Model      map[string]string `json:"model,omitempty"`
	Replay     *ReplayResult     `json:"replay,omitempty"`
	Goal       string            `json:"goal"`
	Note       string            `json:"note"`
	CE         *CEResult         `json:"counterexample_mode,omitempty"`
}

type CEResult struct {
	Obligation string            `json:"obligation"`
	Unroll     int               `json:"loops_unrolled"`
	Model      map[string]string `json:"model"`
	Replay     *ReplayResult     `json:"replay"`
	Candidates int               `json:"candidates_tried"`
}

// ceSearch re-runs the function in counterexample mode (quantifier-free as far as the code allows:
// loops unrolled, inputs small) and replays every model on the real code until one is confirmed.
func ceSearch(V *Verifier, fi *FuncInfo, ob *Obligation, repo, wd string, cache map[string][]*Obligation) *CEResult {
	fct := V.contractFor(fi.Obj)
	if fct == nil || fi.Decl.Recv != nil {
		return nil
	}
	const unroll = 7
	cands, ok := cache[ob.Func]
	if !ok {
		res := V.verifyFuncMode(fi, fct, unroll)
		if res.Err == "" {
			var obls []*Obligation
			for _, o := range res.Obls {
				if o.Expect == "unsat" && o.Kind != "frame" && o.Kind != "alloc" {
					obls = append(obls, o)
				}
			}
			V.discharge(obls, SolveOpts{TimeoutS: 5, Workdir: wd, Workers: 16})
			for _, o := range obls {
				if o.Status == "failed" && len(o.Model) > 0 {
					cands = append(cands, o)
				}
			}
		}
		cache[ob.Func] = cands
	}
	// prefer candidates for the same obligation, then same kind, then anything
	order := func(o *Obligation) int {
		switch {
		case o.Name == ob.Name:
			return 0
		case o.Kind == ob.Kind:
			return 1
		}
		return 2
	}
	best := &CEResult{Unroll: unroll}
	tried := 0
	for pass := 0; pass < 3; pass++ {
		for _, o := range cands {
			if order(o) != pass || tried >= 8 {
				continue
			}
			tried++
			rr := replayModel(V, fi, o, repo, wd)
			if rr != nil && rr.Confirmed {
				return &CEResult{Obligation: o.Name, Unroll: unroll, Model: o.Model, Replay: rr, Candidates: tried}
			}
			if best.Replay == nil {
				best.Obligation, best.Model, best.Replay = o.Name, o.Model, rr
			}
		}
	}
	best.Candidates = tried
	if tried == 0 {
		return nil
	}
	return best
}

func cmdCheck(args []string) {
	fs := flag.NewFlagSet("check", flag.ExitOnError)
	repo := fs.String("repo", "/repo", "repository root")
	verif := fs.String("verif", "/verif", "verif root")
	prop := fs.String("prop", "", "property id")
	tier := fs.String("tier", "quick", "quick|thorough")
	work := fs.String("work", "", "scratch directory for VC files (default: mktemp)")
	fs.Parse(args)
	t0 := time.Now()
	seed := 0
	if s := os.Getenv("VERIF_SEED"); s != "" {
		fmt.Sscanf(s, "%d", &seed)
	}
	if t := os.Getenv("VERIF_TIER"); t == "quick" || t == "thorough" {
		*tier = t
	}
	var props map[string]*PropSpec
	if err := readJSON(filepath.Join(*verif, "props.json"), &props); err != nil {
		fatal2("props.json: %v", err)
	}
	ps := props[*prop]
	if ps == nil {
		fatal2("unknown property %s", *prop)
	}
	var known []KnownFinding
	readJSON(filepath.Join(*verif, "known_findings.json"), &known)

	V := newVerifier(*repo, filepath.Join(*verif, "stdlib"))
	if err := V.load(append([]string{"./..."}, ps.Load...)); err != nil {
		fatal2("cannot load %s: %v", *repo, err)
	}
	loadS := time.Since(t0).Seconds()
	wd := *work
	if wd == "" {
		var err error
		wd, err = os.MkdirTemp("", "govc-"+*prop+"-")
		if err != nil {
			fatal2("mktemp: %v", err)
		}
		defer os.RemoveAll(wd)
	}
	timeout := 60
	two := false
	if *tier == "thorough" {
		timeout = 120
		two = true
	}
	var all []*Obligation
	var results []*FuncResult
	engineErrs := map[string]string{}
	assumptions := map[string]bool{}
	var underContract []string
	trusted := map[string]bool{}
	inlined := map[string]bool{}
	// the functions the property lists, followed by the closure of the contracts their proofs call: a caller is checked
	// against its callees' contracts, so those contracts are obligations of this property too (a change that breaks a
	// callee's postcondition is then reported here, not only under the property that lists the callee)
	queue := append([]string(nil), ps.Functions...)
	queued := map[string]bool{}
	for _, n := range queue {
		queued[n] = true
	}
	var dependencies []string
	for qi := 0; qi < len(queue); qi++ {
		name := queue[qi]
		k := strings.Index(name, ".")
		pkg, key := name[:k], name[k+1:]
		pc := V.contractsByName[pkg]
		if pc == nil {
			fatal2("package %s not loaded", pkg)
		}
		fct := pc.Funcs[key]
		if fct == nil {
			engineErrs[name] = "no contract block for this function (contract file and props.json out of sync)"
			continue
		}
		if fct.Trusted {
			trusted[name] = true
			continue
		}
		fi := V.funcInfoForContract(pkg, key, fct)
		if fi == nil {
			if isDep(dependencies, name) {
				assumptions["contract of "+name+" (no body in the loaded packages): assumed"] = true
				continue
			}
			engineErrs[name] = "function under contract no longer exists in the working tree"
			continue
		}
		res := V.verifyFunc(fi, fct)
		results = append(results, res)
		underContract = append(underContract, name)
		if res.Err != "" {
			engineErrs[name] = res.Err
			continue
		}
		for _, ob := range res.Obls {
			ob.Prop = []string{*prop}
		}
		all = append(all, res.Obls...)
		for _, a := range res.Assumptions {
			assumptions[a] = true
		}
		for _, a := range res.Inlined {
			inlined[a] = true
		}
		for _, c := range res.Callees {
			if strings.HasPrefix(c, "stdlib.") {
				assumptions["assumed contract of dependency: "+strings.TrimPrefix(c, "stdlib.")] = true
			} else if !strings.HasPrefix(c, "lemma ") && !queued[c] {
				queued[c] = true
				queue = append(queue, c)
				dependencies = append(dependencies, c)
			}
		}
		for _, w := range res.WeakFrames {
			assumptions["loop frame not inferred (heap havocked, invariants carry everything): "+res.Name+" "+w] = true
		}
	}
	for _, name := range ps.Lemmas {
		k := strings.Index(name, ".")
		pkg, key := name[:k], name[k+1:]
		pc := V.contractsByName[pkg]
		if pc == nil || pc.Funcs[key] == nil || !pc.Funcs[key].Lemma {
			engineErrs[name] = "no such lemma"
			continue
		}
		res := V.verifyLemma(pkg, pc.Funcs[key])
		results = append(results, res)
		underContract = append(underContract, "lemma "+name)
		if res.Err != "" {
			engineErrs[name] = res.Err
			continue
		}
		all = append(all, res.Obls...)
	}
	// name instances uniquely: name#k for repeated path instances
	seen := map[string]int{}
	for _, ob := range all {
		seen[ob.Name]++
		if seen[ob.Name] > 1 {
			ob.Detail = fmt.Sprintf("%s#%d", ob.Name, seen[ob.Name])
		} else {
			ob.Detail = ob.Name
		}
	}
	t1 := time.Now()
	V.discharge(all, SolveOpts{TimeoutS: timeout, TwoSolver: two, Workdir: wd, Workers: 10})
	solveS := time.Since(t1).Seconds()

	groupVacuity(all)
	// classify
	discharged := 0
	bySolver := map[string]int{}
	solverTime := 0.0
	var failing []*Obligation
	for _, ob := range all {
		solverTime += ob.Time
		if ob.Status == "proved" {
			discharged++
			bySolver[ob.Solver]++
		} else {
			failing = append(failing, ob)
		}
	}
	violations := 0
	toolTrouble := false
	replayDir := filepath.Join(*verif, "replays", *prop)
	reported := map[string]bool{}
	ceCache := map[string][]*Obligation{}
	var knownLines []string
	for _, ob := range failing {
		if ob.Status == "solver-disagreement" || ob.Status == "error" {
			toolTrouble = true
			fmt.Printf("TOOL-TROUBLE %s: %s\n%s\n", ob.Name, ob.Status, ob.Output)
			continue
		}
		if reported[ob.Name] {
			continue
		}
		reported[ob.Name] = true
		if kf := matchKnown(known, *prop, ob.Name); kf != nil {
			knownLines = append(knownLines, fmt.Sprintf("KNOWN-FINDING: property=%s %s [%s]", *prop, kf.What, ob.Name))
			continue
		}
		violations++
		rf := &ReplayFile{Property: *prop, Obligation: ob.Name, Kind: ob.Kind, Function: ob.Func, Position: ob.Pos, Status: ob.Status, Solver: ob.Solver, SolverOut: ob.Output, Model: ob.Model, Goal: ob.Goal}
		suffix := " no-failing-input-found"
		if ob.Status == "failed" && len(ob.Model) > 0 {
			if fi := V.funcsByKey[ob.Func]; fi != nil {
				rr := replayModel(V, fi, ob, *repo, wd)
				rf.Replay = rr
				if rr != nil && rr.Confirmed {
					suffix = ""
				}
			}
		}
		if suffix != "" {
			// counterexample mode: unroll the loops of this function, search small inputs, replay candidates
			if fi := V.funcsByKey[ob.Func]; fi != nil {
				if ce := ceSearch(V, fi, ob, *repo, wd, ceCache); ce != nil {
					rf.CE = ce
					if ce.Replay != nil && ce.Replay.Confirmed {
						suffix = ""
					}
				}
			}
		}
		if ob.Status != "failed" {
			rf.Note = "the solvers could not discharge this obligation (status " + ob.Status + "); it is reported because every registered obligation discharges on the unchanged tree"
		}
		path := filepath.Join(replayDir, sanitize(ob.Name)+".json")
		os.MkdirAll(replayDir, 0o755)
		writeJSON(path, rf)
		fmt.Printf("VIOLATION property=%s replay=%s obligation=%s status=%s%s\n", *prop, path, ob.Name, ob.Status, suffix)
	}
	var errNames []string
	for n := range engineErrs {
		errNames = append(errNames, n)
	}
	sort.Strings(errNames)
	for _, n := range errNames {
		violations++
		rf := &ReplayFile{Property: *prop, Obligation: n + "/contract-binds", Kind: "contract-binding", Function: n, Status: "engine-error", SolverOut: engineErrs[n],
			Note: "the verification conditions of this function could not be generated from the current source; its contract no longer binds to the code"}
		path := filepath.Join(replayDir, sanitize(n)+"_binding.json")
		os.MkdirAll(replayDir, 0o755)
		writeJSON(path, rf)
		fmt.Printf("VIOLATION property=%s replay=%s obligation=%s/contract-binds status=engine-error (%s) no-failing-input-found\n", *prop, path, n, engineErrs[n])
	}
	// bounded stand-ins (executable harnesses on the real code; labelled bounded, never counted as discharged)
	var bres []*BoundedResult
	for _, b := range ps.Bounded {
		br := runBounded(*repo, *verif, b, *tier, wd)
		bres = append(bres, br)
		if br.Error != "" && br.Failures == 0 {
			toolTrouble = true
			fmt.Printf("TOOL-TROUBLE bounded harness %s: %s\n", b.Name, br.Error)
			continue
		}
		if br.Failures > 0 {
			obName := "bounded:" + b.Name
			if kf := matchKnown(known, *prop, obName); kf != nil {
				knownLines = append(knownLines, fmt.Sprintf("KNOWN-FINDING: property=%s %s [%s]", *prop, kf.What, obName))
				continue
			}
			violations++
			rf := &ReplayFile{Property: *prop, Obligation: obName, Kind: "bounded", Status: "failed", SolverOut: strings.Join(br.FailLines, "\n"),
				Note: "failing inputs found by the bounded executable-contract harness " + b.File + " (test " + b.Run + " injected into /repo/" + b.Pkg + " by overlay); each GOVC-FAIL line is a concrete input that violates the property on the real code"}
			path := filepath.Join(replayDir, sanitize(obName)+".json")
			os.MkdirAll(replayDir, 0o755)
			writeJSON(path, rf)
			fmt.Printf("VIOLATION property=%s replay=%s obligation=%s status=failing-input-found\n", *prop, path, obName)
			for _, l := range br.FailLines {
				fmt.Println("  " + l)
			}
		}
	}
	for _, l := range knownLines {
		fmt.Println(l)
	}
	// evidence
	var samples []map[string]interface{}
	for i, ob := range all {
		if i%(len(all)/8+1) == 0 {
			samples = append(samples, map[string]interface{}{"obligation": ob.Detail, "kind": ob.Kind, "status": ob.Status, "solver": ob.Solver, "solver_s": round3(ob.Time), "pos": ob.Pos})
		}
	}
	var asm []string
	for a := range assumptions {
		asm = append(asm, a)
	}
	for _, a := range ps.Assumptions {
		asm = append(asm, a)
	}
	asm = append(asm,
		"the verification-condition generator (govc) implements the Go semantics described in DESIGN.md §2.2 correctly (trusted; guarded by the must-fail selftest corpus)",
		"int/uint are 64 bit (amd64); slice and string lengths and capacities are below 2^48; allocation never fails",
		"SMT solvers z3 5.1.0 / cvc5 1.0.3 / z3 4.8.12 are sound")
	sort.Strings(asm)
	var tl []string
	for n := range trusted {
		tl = append(tl, "trusted contract (not verified): "+n)
	}
	for n := range inlined {
		tl = append(tl, "inlined helper (verified as part of its callers): "+n)
	}
	sort.Strings(tl)
	if tl == nil {
		tl = []string{}
	}
	tl = append(tl, "govc verification-condition generator (engine/), SMT solvers z3 5.1.0 / cvc5 1.0.3 / z3 4.8.12, go/types")
	level := ps.Level
	if level == "" {
		level = "proof"
	}
	cov := map[string]interface{}{
		"obligations":              len(all),
		"discharged":               discharged,
		"checker_cmd":              fmt.Sprintf("/verif/engine/govc check -prop %s -tier %s  (VCs generated from %s, discharged by z3-new/cvc5/z3)", *prop, *tier, *repo),
		"trusted_base":             tl,
		"functions_under_contract": underContract,
		"of_which_callee_contracts": dependencies,
		"discharged_by_backend":    bySolver,
		"solver_time_s":            round3(solverTime),
		"slowest_obligations":      slowest(all, 8),
		"load_s":                   round3(loadS),
		"solve_wall_s":             round3(solveS),
		"trivially_true_obligations_not_counted": V.trivial,
		"samples":                  samples,
		"known_findings_printed":   len(knownLines),
		"not_covered":              ps.NotCovered,
		"bounded_clauses":          bres,
		"explanation":              ps.Explanation,
		"per_obligation_timeout_s": timeout,
		"two_solver_agreement":     two,
	}
	ev := map[string]interface{}{
		"property_id": *prop,
		"tier":        *tier,
		"seed":        seed,
		"level":       level,
		"coverage":    cov,
		"assumptions": asm,
		"wall_s":      round3(time.Since(t0).Seconds()),
		"violations":  violations,
	}
	os.MkdirAll(filepath.Join(*verif, "evidence"), 0o755)
	// the driver script may merge bounded-clause results into this file afterwards
	writeJSON(filepath.Join(*verif, "evidence", *prop+".json"), ev)
	fmt.Printf("govc: property %s tier %s: %d functions, %d obligations, %d discharged, %d violations, %d known findings, %.1fs\n",
		*prop, *tier, len(underContract), len(all), discharged, violations, len(knownLines), time.Since(t0).Seconds())
	// os.Exit skips the deferred removal of the scratch directory: remove it here on the non-zero exits
	cleanup := func() {
		if *work == "" {
			os.RemoveAll(wd)
		}
	}
	if toolTrouble {
		cleanup()
		os.Exit(2)
	}
	if violations > 0 {
		cleanup()
		os.Exit(1)
	}
	if len(all) == 0 {
		fmt.Println("TOOL-TROUBLE: no obligations were generated (vacuity guard)")
		cleanup()
		os.Exit(2)
	}
}

// slowest: the obligations that took the most solver time (name, seconds, deciding back end): the ones to watch for
// timeouts on a slower machine
func slowest(all []*Obligation, n int) []map[string]interface{} {
	cp := append([]*Obligation(nil), all...)
	sort.SliceStable(cp, func(i, j int) bool { return cp[i].Time > cp[j].Time })
	var out []map[string]interface{}
	for i := 0; i < len(cp) && i < n; i++ {
		out = append(out, map[string]interface{}{"obligation": cp[i].Name, "solver_s": round3(cp[i].Time), "by": cp[i].Solver})
	}
	return out
}

func isDep(deps []string, name string) bool {
	for _, d := range deps {
		if d == name {
			return true
		}
	}
	return false
}

func matchKnown(known []KnownFinding, prop, obl string) *KnownFinding {
	for i := range known {
		k := &known[i]
		if k.Status == "known" && k.Property == prop && k.Obligation == obl {
			return k
		}
	}
	return nil
}

func round3(f float64) float64 { return float64(int(f*1000+0.5)) / 1000 }

func readJSON(path string, v interface{}) error {
	data, err := os.ReadFile(path)
	if err != nil {
		return err
	}
	return json.Unmarshal(data, v)
}

func writeJSON(path string, v interface{}) {
	data, _ := json.MarshalIndent(v, "", " ")
	os.WriteFile(path, append(data, '\n'), 0o644)
}

func fatal2(f string, a ...interface{}) {
	fmt.Fprintf(os.Stderr, "govc: "+f+"\n", a...)
	os.Exit(2)
}
