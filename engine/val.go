package main

import (
	"fmt"
	"go/types"
	"math/big"
	"strings"
)

// ---------- SMT term helpers (terms are strings) ----------

func sApp(op string, args ...string) string {
	return "(" + op + " " + strings.Join(args, " ") + ")"
}

func isNum(s string) (*big.Int, bool) {
	if s == "" {
		return nil, false
	}
	if s[0] == '(' {
		if strings.HasPrefix(s, "(- ") && strings.HasSuffix(s, ")") {
			in := s[3 : len(s)-1]
			if n, ok := new(big.Int).SetString(in, 10); ok && !strings.ContainsAny(in, " ()") {
				return n.Neg(n), true
			}
		}
		return nil, false
	}
	if s[0] < '0' || s[0] > '9' {
		return nil, false
	}
	n, ok := new(big.Int).SetString(s, 10)
	return n, ok
}

func sNum(n *big.Int) string {
	if n.Sign() < 0 {
		return "(- " + new(big.Int).Neg(n).String() + ")"
	}
	return n.String()
}
func sInt(n int64) string { return sNum(big.NewInt(n)) }

func sAdd(a, b string) string {
	x, ok1 := isNum(a)
	y, ok2 := isNum(b)
	if ok1 && ok2 {
		return sNum(new(big.Int).Add(x, y))
	}
	if ok1 && x.Sign() == 0 {
		return b
	}
	if ok2 && y.Sign() == 0 {
		return a
	}
	if b == "(- g_abs "+a+")" || strings.HasPrefix(b, "(- g_qabs_") && strings.HasSuffix(b, " "+a+")") {
		// off + (abs - off) = abs
		return strings.TrimSuffix(strings.TrimPrefix(b, "(- "), " "+a+")")
	}
	return sApp("+", a, b)
}
func sSub(a, b string) string {
	x, ok1 := isNum(a)
	y, ok2 := isNum(b)
	if ok1 && ok2 {
		return sNum(new(big.Int).Sub(x, y))
	}
	if ok2 && y.Sign() == 0 {
		return a
	}
	return sApp("-", a, b)
}
func sMul(a, b string) string {
	x, ok1 := isNum(a)
	y, ok2 := isNum(b)
	if ok1 && ok2 {
		return sNum(new(big.Int).Mul(x, y))
	}
	if ok1 && x.Cmp(big.NewInt(1)) == 0 {
		return b
	}
	if ok2 && y.Cmp(big.NewInt(1)) == 0 {
		return a
	}
	return sApp("*", a, b)
}
func sAnd(xs ...string) string {
	var out []string
	for _, x := range xs {
		if x == "true" || x == "" {
			continue
		}
		if x == "false" {
			return "false"
		}
		out = append(out, x)
	}
	if len(out) == 0 {
		return "true"
	}
	if len(out) == 1 {
		return out[0]
	}
	return sApp("and", out...)
}
func sOr(xs ...string) string {
	var out []string
	for _, x := range xs {
		if x == "false" || x == "" {
			continue
		}
		if x == "true" {
			return "true"
		}
		out = append(out, x)
	}
	if len(out) == 0 {
		return "false"
	}
	if len(out) == 1 {
		return out[0]
	}
	return sApp("or", out...)
}
func sNot(x string) string {
	if x == "true" {
		return "false"
	}
	if x == "false" {
		return "true"
	}
	if strings.HasPrefix(x, "(not ") {
		return x[5 : len(x)-1]
	}
	return sApp("not", x)
}
func sImp(a, b string) string {
	if a == "true" {
		return b
	}
	if a == "false" || b == "true" {
		return "true"
	}
	return sApp("=>", a, b)
}
func sIte(c, a, b string) string {
	if c == "true" {
		return a
	}
	if c == "false" {
		return b
	}
	if a == b {
		return a
	}
	return sApp("ite", c, a, b)
}
func sEq(a, b string) string {
	if a == b {
		return "true"
	}
	x, ok1 := isNum(a)
	y, ok2 := isNum(b)
	if ok1 && ok2 {
		if x.Cmp(y) == 0 {
			return "true"
		}
		return "false"
	}
	return sApp("=", a, b)
}
func sCmp(op, a, b string) string {
	x, ok1 := isNum(a)
	y, ok2 := isNum(b)
	if ok1 && ok2 {
		c := x.Cmp(y)
		var r bool
		switch op {
		case "<":
			r = c < 0
		case "<=":
			r = c <= 0
		case ">":
			r = c > 0
		case ">=":
			r = c >= 0
		}
		if r {
			return "true"
		}
		return "false"
	}
	return sApp(op, a, b)
}
func sSel(a, i string) string      { return sApp("select", a, i) }
func sStore(a, i, v string) string { return sApp("store", a, i, v) }

func pow2(k uint) *big.Int { return new(big.Int).Lsh(big.NewInt(1), k) }

// ---------- values ----------

type Kind int

const (
	KInt Kind = iota // integers, pointers(refs), errors/interfaces (opaque ints), type-param values
	KBool
	KString // Sub: content (Array Int Int), len
	KSlice  // Sub: arr, off, len, cap
	KStruct // Sub: fields in declaration order
	KArray  // Go fixed-size array value: Sub = one raw component per flat component of the element type, each of sort (Array Int s)
	KTuple
	KFunc   // function value: S = smt function symbol or Fn closure
	KPtrVar // pointer to a local variable
	KPtrElem
	KRaw  // raw SMT term of arbitrary sort (component of KArray etc.)
	KNil  // untyped nil
	KUnit // no value
)

type Val struct {
	K    Kind
	T    types.Type
	S    string
	Sub  []Val
	Obj  types.Object // KPtrVar target
	Fn   *FuncVal
	Sort string // for KRaw
	Heap map[string]string // spec-only: a slice value frozen to a heap snapshot (result of old(slice))
}

type FuncVal struct {
	Sym    string        // uninterpreted SMT function symbol (pure function parameter)
	Sig    *types.Signature
	Traced bool
}

func vInt(s string, t types.Type) Val  { return Val{K: KInt, S: s, T: t} }
func vBool(s string) Val               { return Val{K: KBool, S: s, T: types.Typ[types.Bool]} }
func vRaw(s, sort string) Val          { return Val{K: KRaw, S: s, Sort: sort} }
func (v Val) arr() string              { return v.Sub[0].S }
func (v Val) off() string              { return v.Sub[1].S }
func (v Val) length() string           { return v.Sub[2].S }
func (v Val) soff() string             { return v.Sub[1].S }
func (v Val) at(k string) string       { return sSel(v.Sub[0].S, sAdd(v.Sub[1].S, k)) }
func (v Val) capa() string             { return v.Sub[3].S }
func (v Val) content() string          { return v.Sub[0].S }

func mkSlice(t types.Type, arr, off, ln, cp string) Val {
	it := types.Typ[types.Int]
	return Val{K: KSlice, T: t, Sub: []Val{vInt(arr, it), vInt(off, it), vInt(ln, it), vInt(cp, it)}}
}
func mkString(t types.Type, content, off, ln string) Val {
	return Val{K: KString, T: t, Sub: []Val{vRaw(content, "(Array Int Int)"), vInt(off, types.Typ[types.Int]), vInt(ln, types.Typ[types.Int])}}
}

// Comp describes one scalar SMT component of a flattened Go type.
type Comp struct {
	Path string
	Sort string
	T    types.Type // Go type of the leaf (for typing assumptions); nil for raw
	Leaf string     // "int","bool","arr","off","len","cap","str","slen","raw"
}

type typeClass int

const (
	tcInt typeClass = iota
	tcBool
	tcString
	tcSlice
	tcStruct
	tcArray
	tcPtr
	tcMap
	tcFunc
	tcIface
	tcTParamSeq // ~string|~[]byte: read-only byte sequence
	tcTParam
	tcFloat
	tcChan
	tcTuple
	tcOther
)

func classify(t types.Type) typeClass {
	if t == nil {
		return tcOther
	}
	if tp, ok := t.(*types.TypeParam); ok {
		return classifyTParam(tp)
	}
	switch u := t.Underlying().(type) {
	case *types.Basic:
		switch {
		case u.Info()&types.IsBoolean != 0:
			return tcBool
		case u.Info()&types.IsInteger != 0:
			return tcInt
		case u.Info()&types.IsString != 0:
			return tcString
		case u.Info()&types.IsFloat != 0:
			return tcFloat
		case u.Kind() == types.UnsafePointer:
			return tcPtr
		case u.Kind() == types.UntypedNil:
			return tcOther
		}
		return tcOther
	case *types.Slice:
		return tcSlice
	case *types.Struct:
		return tcStruct
	case *types.Array:
		return tcArray
	case *types.Pointer:
		return tcPtr
	case *types.Map:
		return tcMap
	case *types.Signature:
		return tcFunc
	case *types.Interface:
		return tcIface
	case *types.Chan:
		return tcChan
	case *types.Tuple:
		return tcTuple
	}
	return tcOther
}

func classifyTParam(tp *types.TypeParam) typeClass {
	iface, ok := tp.Constraint().Underlying().(*types.Interface)
	if !ok {
		return tcTParam
	}
	allSeq := true
	any := false
	var walk func(t types.Type)
	walk = func(t types.Type) {
		switch u := t.(type) {
		case *types.Union:
			for i := 0; i < u.Len(); i++ {
				walk(u.Term(i).Type())
			}
		default:
			any = true
			c := classify(t)
			if c == tcString {
				return
			}
			if c == tcSlice {
				if b, ok := t.Underlying().(*types.Slice).Elem().Underlying().(*types.Basic); ok && b.Kind() == types.Uint8 {
					return
				}
			}
			if it, ok := t.Underlying().(*types.Interface); ok && it.NumEmbeddeds() > 0 {
				for i := 0; i < it.NumEmbeddeds(); i++ {
					walk(it.EmbeddedType(i))
				}
				return
			}
			allSeq = false
		}
	}
	for i := 0; i < iface.NumEmbeddeds(); i++ {
		walk(iface.EmbeddedType(i))
	}
	if any && allSeq {
		return tcTParamSeq
	}
	return tcTParam
}

func qualifier(p *types.Package) string { return p.Name() }

// typeKey gives a stable name for heap partitioning.
func typeKey(t types.Type) string {
	switch u := t.(type) {
	case *types.Basic:
		switch u.Kind() {
		case types.Uint8:
			return "uint8"
		case types.Int32:
			return "int32"
		}
		return u.Name()
	case *types.Alias:
		return typeKey(types.Unalias(t))
	case *types.Named:
		o := u.Origin().Obj()
		if o.Pkg() != nil {
			return o.Pkg().Name() + "." + canonStructName(u.Origin(), o)
		}
		return o.Name()
	case *types.Pointer:
		return "ptr_" + typeKey(u.Elem())
	case *types.Slice:
		return "sl_" + typeKey(u.Elem())
	case *types.Array:
		return fmt.Sprintf("arr%d_%s", u.Len(), typeKey(u.Elem()))
	case *types.TypeParam:
		return "tp_" + u.Obj().Name()
	case *types.Map:
		return "map_" + typeKey(u.Key()) + "_" + typeKey(u.Elem())
	case *types.Struct:
		return "anonstruct"
	case *types.Signature:
		return "func"
	case *types.Interface:
		return "iface"
	}
	return sanitize(types.TypeString(t, qualifier))
}

// canonStructName: named struct types declared as "type B A" share A's underlying struct and convert freely into each
// other (also through pointers); they share one heap, named after the alphabetically first of them.
var canonCache = map[*types.Struct]string{}

func canonStructName(n *types.Named, o *types.TypeName) string {
	st, ok := n.Underlying().(*types.Struct)
	if !ok || n.TypeParams().Len() > 0 {
		return o.Name()
	}
	if c, ok := canonCache[st]; ok {
		return c
	}
	best := o.Name()
	sc := o.Pkg().Scope()
	for _, name := range sc.Names() {
		if tn, ok := sc.Lookup(name).(*types.TypeName); ok && !tn.IsAlias() {
			if nn, ok := tn.Type().(*types.Named); ok && nn.TypeParams().Len() == 0 {
				if s2, ok := nn.Underlying().(*types.Struct); ok && s2 == st && name < best {
					best = name
				}
			}
		}
	}
	canonCache[st] = best
	return best
}

func sanitize(s string) string {
	var b strings.Builder
	for _, c := range s {
		if c >= 'a' && c <= 'z' || c >= 'A' && c <= 'Z' || c >= '0' && c <= '9' || c == '_' || c == '.' {
			b.WriteRune(c)
		} else {
			b.WriteByte('_')
		}
	}
	return b.String()
}

var intType = types.Typ[types.Int]

// flatComps lists the scalar SMT components of a Go type, in a fixed order.
func flatComps(t types.Type) []Comp {
	switch classify(t) {
	case tcInt, tcPtr, tcIface, tcTParam, tcMap, tcFunc, tcChan, tcFloat:
		return []Comp{{"", "Int", t, "int"}}
	case tcBool:
		return []Comp{{"", "Bool", t, "bool"}}
	case tcString, tcTParamSeq:
		return []Comp{{".str", "(Array Int Int)", nil, "str"}, {".soff", "Int", nil, "soff"}, {".slen", "Int", nil, "slen"}}
	case tcSlice:
		return []Comp{{".arr", "Int", nil, "arr"}, {".off", "Int", nil, "off"}, {".len", "Int", nil, "len"}, {".cap", "Int", nil, "cap"}}
	case tcStruct:
		st := t.Underlying().(*types.Struct)
		var out []Comp
		for i := 0; i < st.NumFields(); i++ {
			f := st.Field(i)
			if isInterior(f.Type()) {
				continue
			}
			for _, c := range flatComps(f.Type()) {
				c.Path = "." + f.Name() + c.Path
				out = append(out, c)
			}
		}
		return out
	case tcArray:
		at := t.Underlying().(*types.Array)
		var out []Comp
		for _, c := range flatComps(at.Elem()) {
			out = append(out, Comp{".el" + c.Path, "(Array Int " + c.Sort + ")", nil, "raw"})
		}
		return out
	}
	return []Comp{{"", "Int", t, "int"}}
}

// Interior objects. A struct-typed field whose type is a recursive node type (a named struct with a pointer field to
// itself, e.g. the sentinel "root DNode" of a list) has its address taken and stored in the heap. It is modelled as a
// separate object of the node type allocated in one block with its owner: for an owner reference r, the object of
// the i-th such field is r + i (i = 1..K). Allocating the owner reserves r..r+K; symbolic owner references satisfy
// r + K < alloc. Copying an owner struct by value is not supported.
func isInterior(ft types.Type) bool {
	n, ok := ft.(*types.Named)
	if !ok {
		return false
	}
	s, ok := n.Underlying().(*types.Struct)
	if !ok {
		return false
	}
	for i := 0; i < s.NumFields(); i++ {
		ft := s.Field(i).Type()
		if sl, ok := ft.(*types.Slice); ok {
			ft = sl.Elem() // a tower of pointers to nodes of the same type
		}
		if p, ok := ft.(*types.Pointer); ok {
			if pn, ok := p.Elem().(*types.Named); ok && pn.Origin() == n.Origin() {
				return true
			}
		}
	}
	return false
}

// interiorIndex: 1-based ordinal of the interior field among the interior fields of structT (0: not interior).
func interiorIndex(structT types.Type, field string) int {
	s, ok := structT.Underlying().(*types.Struct)
	if !ok {
		return 0
	}
	k := 0
	for i := 0; i < s.NumFields(); i++ {
		if isInterior(s.Field(i).Type()) {
			k++
			if s.Field(i).Name() == field {
				return k
			}
		}
	}
	return 0
}

func interiorCount(structT types.Type) int {
	s, ok := structT.Underlying().(*types.Struct)
	if !ok {
		return 0
	}
	k := 0
	for i := 0; i < s.NumFields(); i++ {
		if isInterior(s.Field(i).Type()) {
			k++
		}
	}
	return k
}

// refBlock: number of extra references reserved behind a reference of pointer type t.
func refBlock(t types.Type) int {
	if t == nil {
		return 0
	}
	if p, ok := t.Underlying().(*types.Pointer); ok {
		return interiorCount(p.Elem())
	}
	return 0
}

func flatten(v Val) []string {
	switch v.K {
	case KInt, KBool, KRaw, KFunc:
		return []string{v.S}
	case KNil:
		return []string{"0"}
	case KUnit:
		return nil
	}
	var out []string
	for _, s := range v.Sub {
		out = append(out, flatten(s)...)
	}
	return out
}

// unflatten rebuilds a Val of Go type t from component terms.
func unflatten(t types.Type, terms []string) Val {
	v, rest := unflat1(t, terms)
	if len(rest) != 0 {
		panic("unflatten: leftover components for " + t.String())
	}
	return v
}

func unflat1(t types.Type, terms []string) (Val, []string) {
	switch classify(t) {
	case tcBool:
		return Val{K: KBool, S: terms[0], T: t}, terms[1:]
	case tcString, tcTParamSeq:
		return mkString(t, terms[0], terms[1], terms[2]), terms[3:]
	case tcSlice:
		return mkSlice(t, terms[0], terms[1], terms[2], terms[3]), terms[4:]
	case tcStruct:
		st := t.Underlying().(*types.Struct)
		v := Val{K: KStruct, T: t}
		for i := 0; i < st.NumFields(); i++ {
			if isInterior(st.Field(i).Type()) {
				v.Sub = append(v.Sub, Val{K: KUnit, T: st.Field(i).Type()})
				continue
			}
			var f Val
			f, terms = unflat1(st.Field(i).Type(), terms)
			v.Sub = append(v.Sub, f)
		}
		return v, terms
	case tcArray:
		at := t.Underlying().(*types.Array)
		cs := flatComps(at.Elem())
		v := Val{K: KArray, T: t}
		for i, c := range cs {
			v.Sub = append(v.Sub, vRaw(terms[i], "(Array Int "+c.Sort+")"))
		}
		return v, terms[len(cs):]
	}
	return Val{K: KInt, S: terms[0], T: t}, terms[1:]
}

func intInfo(t types.Type) (bits uint, signed bool, ok bool) {
	if t == nil {
		return 0, false, false
	}
	if tp, isTP := t.(*types.TypeParam); isTP {
		_ = tp
		return 0, false, false
	}
	b, isB := t.Underlying().(*types.Basic)
	if !isB || b.Info()&types.IsInteger == 0 {
		return 0, false, false
	}
	switch b.Kind() {
	case types.Int8:
		return 8, true, true
	case types.Int16:
		return 16, true, true
	case types.Int32:
		return 32, true, true
	case types.Int64, types.Int:
		return 64, true, true
	case types.Uint8:
		return 8, false, true
	case types.Uint16:
		return 16, false, true
	case types.Uint32:
		return 32, false, true
	case types.Uint64, types.Uint, types.Uintptr:
		return 64, false, true
	case types.UntypedInt, types.UntypedRune:
		return 0, true, true
	}
	return 0, false, false
}

func intRange(t types.Type) (lo, hi *big.Int, ok bool) {
	bits, signed, ok := intInfo(t)
	if !ok || bits == 0 {
		return nil, nil, false
	}
	if signed {
		hi = new(big.Int).Sub(pow2(bits-1), big.NewInt(1))
		lo = new(big.Int).Neg(pow2(bits - 1))
	} else {
		lo = big.NewInt(0)
		hi = new(big.Int).Sub(pow2(bits), big.NewInt(1))
	}
	return lo, hi, true
}

const maxLenBits = 48 // every slice/string length and capacity is below 2^48 (amd64 user address space)

func inRange(term string, t types.Type) string {
	lo, hi, ok := intRange(t)
	if !ok {
		return "true"
	}
	return sAnd(sCmp("<=", sNum(lo), term), sCmp("<=", term, sNum(hi)))
}
