package main

import (
	"sort"
	"fmt"
	"go/constant"
	"go/token"
	"go/types"
	"math/big"
	"strconv"
	"strings"
)

// Snapshot captures what old(...) refers to.
type Snapshot struct {
	heap  map[string]string
	vars  map[types.Object]Val
	names map[string]Val
	alloc string
}

func (st *State) snapshot(names map[string]Val) *Snapshot {
	s := &Snapshot{heap: map[string]string{}, vars: map[types.Object]Val{}, names: map[string]Val{}, alloc: st.alloc}
	for k, v := range st.heap {
		s.heap[k] = v
	}
	for k, v := range st.vars {
		s.vars[k] = v
	}
	for k, v := range names {
		s.names[k] = v
	}
	return s
}

type SpecEnv struct {
	st       *State
	old      *Snapshot
	names    map[string]Val
	scopePos token.Pos   // position used to resolve Go identifiers (0: no Go scope)
	scope    *types.Scope
	pkg      *PkgInfo
	heap     map[string]string // nil = live heap of st
	vars     map[types.Object]Val // nil = st.vars
	depth    int
	what     string
	qcount   *int
	absProbe *absProbe
}

func (env *SpecEnv) fail(f string, a ...interface{}) {
	panic(vcErr("spec " + env.what + ": " + fmt.Sprintf(f, a...)))
}

func (env *SpecEnv) child(extra map[string]Val) *SpecEnv {
	c := *env
	c.names = map[string]Val{}
	for k, v := range env.names {
		c.names[k] = v
	}
	for k, v := range extra {
		c.names[k] = v
	}
	return &c
}

func (env *SpecEnv) inOld() *SpecEnv {
	if env.old == nil {
		return env
	}
	c := *env
	c.heap = env.old.heap
	c.vars = env.old.vars
	c.names = map[string]Val{}
	for k, v := range env.names {
		c.names[k] = v
	}
	for k, v := range env.old.names {
		c.names[k] = v
	}
	return &c
}

func (env *SpecEnv) evalBool(n *SNode) string {
	v := env.eval(n)
	if v.K != KBool {
		env.fail("expected boolean in %s", n.String())
	}
	return v.S
}

func (env *SpecEnv) lookup(name string) (Val, bool) {
	if v, ok := env.names[name]; ok {
		return v, true
	}
	st := env.st
	if v, ok := st.ghost[name]; ok {
		return v, true
	}
	if env.scope != nil {
		if _, obj := env.scope.LookupParent(name, env.scopePos); obj != nil {
			switch o := obj.(type) {
			case *types.Var:
				vars := env.vars
				if vars == nil {
					vars = st.vars
				}
				if v, ok := vars[o]; ok {
					return v, true
				}
				if v, ok := st.vars[o]; ok {
					// a local that did not exist in the old state: old(x) = x
					return v, true
				}
				if o.Pkg() != nil && o.Parent() == o.Pkg().Scope() {
					return st.globalVal(o), true
				}
			case *types.Const:
				tv := types.TypeAndValue{Value: o.Val(), Type: o.Type()}
				if v, ok := st.constVal(tv, o.Type()); ok {
					return v, true
				}
			case *types.Nil:
				return Val{K: KNil}, true
			}
		}
	}
	// package-level objects of the current package
	if env.pkg != nil {
		if obj := env.pkg.Types.Scope().Lookup(name); obj != nil {
			switch o := obj.(type) {
			case *types.Var:
				return st.globalVal(o), true
			case *types.Const:
				tv := types.TypeAndValue{Value: o.Val(), Type: o.Type()}
				if v, ok := st.constVal(tv, o.Type()); ok {
					return v, true
				}
			}
		}
	}
	// a live local that is not visible from the anchor's source position (e.g. a loop variable seen from the
	// function's end anchor on a path that returns from inside the loop)
	if env.scope != nil {
		var hit Val
		n := 0
		vars := env.vars
		if vars == nil {
			vars = st.vars
		}
		for o, v := range vars {
			if o.Name() == name && o.Pkg() == env.pkg.Types {
				hit = v
				n++
			}
		}
		if n == 1 {
			return hit, true
		}
	}
	switch name {
	case "true":
		return vBool("true"), true
	case "false":
		return vBool("false"), true
	case "nil":
		return Val{K: KNil}, true
	}
	return Val{}, false
}

func (env *SpecEnv) eval(n *SNode) Val {
	st := env.st
	switch n.Op {
	case "num":
		b, ok := new(big.Int).SetString(n.Text, 0)
		if !ok {
			env.fail("bad number %s", n.Text)
		}
		return vInt(sNum(b), nil)
	case "char":
		s, err := strconv.Unquote(n.Text)
		if err != nil {
			env.fail("bad char %s", n.Text)
		}
		r := []rune(s)
		return vInt(sInt(int64(r[0])), nil)
	case "str":
		s, err := strconv.Unquote(n.Text)
		if err != nil {
			env.fail("bad string %s", n.Text)
		}
		return st.stringConst(s, nil)
	case "id":
		if v, ok := env.lookup(n.Text); ok {
			return v
		}
		env.fail("unknown identifier %q", n.Text)
	case "un":
		switch n.Text {
		case "!":
			return vBool(sNot(env.evalBool(n.Args[0])))
		case "-":
			v := env.eval(n.Args[0])
			return vInt(sSub("0", v.S), v.T)
		case "*":
			p := env.eval(n.Args[0])
			return env.deref(p)
		case "&":
			env.fail("address-of not supported in specs")
		}
	case "bin":
		return env.evalBin(n)
	case "seqdef":
		*env.qcount++
		k := fmt.Sprintf("g_q_%s_%d", n.Vars[0], *env.qcount)
		body := env.child(map[string]Val{n.Vars[0]: vInt(k, nil)}).eval(n.Args[0])
		if body.K != KInt && body.K != KNil {
			env.fail("seqdef: the element must be an integer or reference")
		}
		bs := body.S
		if body.K == KNil {
			bs = "0"
		}
		a := st.fc.fresh("seqdef", "(Array Int Int)")
		st.addFact(fmt.Sprintf("(forall ((%s Int)) (! (= (select %s %s) %s) :pattern ((select %s %s))))", k, a, k, bs, a, k))
		return vRaw(a, "(Array Int Int)")
	case "witness":
		// choice: W[p] is some k in lo..hi with cond(p,k) whenever one exists (sound: such a W always exists).
		// The defining axiom is built as a spec formula so that it gets the same trigger-friendly shape as invariants:
		//   forall p: forall k in lo..hi: cond ==> (lo <= W[p] && W[p] < hi && (let k = W[p]: cond))
		w := st.fc.fresh("witness", "(Array Int Int)")
		pn, kn := n.Vars[0], n.Vars[1]
		id := func(x string) *SNode { return &SNode{Op: "id", Text: x, Pos: n.Pos} }
		bin := func(op string, l, r *SNode) *SNode { return &SNode{Op: "bin", Text: op, Args: []*SNode{l, r}, Pos: n.Pos} }
		wp := &SNode{Op: "index", Args: []*SNode{id("$witness"), id(pn)}, Pos: n.Pos}
		concl := bin("&&", bin("&&", bin("<=", n.Args[0], wp), bin("<", wp, n.Args[1])),
			&SNode{Op: "let", Vars: []string{kn}, Args: []*SNode{wp, n.Args[2]}, Pos: n.Pos})
		inner := &SNode{Op: "forall", Vars: []string{kn}, Args: []*SNode{n.Args[0], n.Args[1], bin("==>", n.Args[2], concl)}, Pos: n.Pos}
		outer := &SNode{Op: "forall", Vars: []string{pn}, Args: []*SNode{nil, nil, inner}, Pos: n.Pos}
		st.addFact(env.child(map[string]Val{"$witness": vRaw(w, "(Array Int Int)")}).evalBool(outer))
		return vRaw(w, "(Array Int Int)")
	case "forall", "exists":
		return env.evalQuant(n)
	case "let":
		v := env.eval(n.Args[0])
		return env.child(map[string]Val{n.Vars[0]: v}).eval(n.Args[1])
	case "sel":
		if n.Args[0].Op == "id" {
			if _, known := env.lookup(n.Args[0].Text); !known && env.pkg != nil {
				// package-qualified global of an imported package: pkg.Name
				for _, imp := range env.pkg.Types.Imports() {
					if imp.Name() == n.Args[0].Text {
						if o, ok := imp.Scope().Lookup(n.Text).(*types.Var); ok {
							return st.globalVal(o)
						}
					}
				}
			}
		}
		base := env.eval(n.Args[0])
		return env.selectField(base, n.Text)
	case "index":
		base := env.eval(n.Args[0])
		idx := env.eval(n.Args[1])
		return env.index(base, idx, n)
	case "slice":
		base := env.eval(n.Args[0])
		lo, hi := "0", ""
		if n.Args[1] != nil {
			lo = env.eval(n.Args[1]).S
		}
		switch base.K {
		case KSlice:
			hi = base.length()
			if n.Args[2] != nil {
				hi = env.eval(n.Args[2]).S
			}
			return mkSlice(base.T, base.arr(), sAdd(base.off(), lo), sSub(hi, lo), sSub(base.capa(), lo))
		case KString:
			hi = base.length()
			if n.Args[2] != nil {
				hi = env.eval(n.Args[2]).S
			}
			return mkString(base.T, base.content(), sAdd(base.soff(), lo), sSub(hi, lo))
		}
		env.fail("cannot slice %s", n.Args[0].String())
	case "call":
		return env.evalCall(n)
	}
	env.fail("unsupported spec node %s", n.String())
	return Val{}
}

func (env *SpecEnv) deref(p Val) Val {
	st := env.st
	switch p.K {
	case KPtrVar:
		vars := env.vars
		if vars == nil {
			vars = st.vars
		}
		return vars[p.Obj]
	case KPtrElem:
		if p.Sort == "field" {
			return st.loadField(env.heapMap(), p.Sub[0].S, p.Sub[1].T, p.S)
		}
		if p.Sort == "fieldof" {
			inner := env.deref(p.Sub[0])
			k, _ := isNum(p.Sub[1].S)
			return inner.Sub[k.Int64()]
		}
		return st.loadElem(env.heapMap(), p.Sub[0], p.Sub[1].S)
	case KInt:
		pt, ok := p.T.Underlying().(*types.Pointer)
		if !ok {
			env.fail("dereference of non-pointer")
		}
		return st.loadPointee(env.heapMap(), p.S, pt.Elem())
	}
	env.fail("cannot dereference")
	return Val{}
}

// heapMap: the heap view of this environment; nil means the live heap of the state.
func (env *SpecEnv) heapMap() map[string]string {
	return env.heap
}

func (env *SpecEnv) selectField(base Val, field string) Val {
	st := env.st
	switch base.K {
	case KStruct:
		s := base.T.Underlying().(*types.Struct)
		for i := 0; i < s.NumFields(); i++ {
			if s.Field(i).Name() == field {
				return base.Sub[i]
			}
		}
		// promoted field through embedded structs
		for i := 0; i < s.NumFields(); i++ {
			if s.Field(i).Embedded() && base.Sub[i].K == KStruct {
				if v, ok := env.trySelect(base.Sub[i], field); ok {
					return v
				}
			}
		}
		env.fail("no field %s in %s", field, base.T)
	case KPtrVar, KPtrElem:
		return env.selectField(env.deref(base), field)
	case KInt:
		if base.T == nil {
			env.fail("field %s of untyped value", field)
		}
		s, structT := structOf(base.T)
		if s == nil {
			env.fail("field %s of non-struct %s", field, base.T)
		}
		for i := 0; i < s.NumFields(); i++ {
			if s.Field(i).Name() == field {
				return st.loadField(env.heapMap(), base.S, structT, field)
			}
		}
		for i := 0; i < s.NumFields(); i++ {
			if s.Field(i).Embedded() {
				inner := st.loadField(env.heapMap(), base.S, structT, s.Field(i).Name())
				if v, ok := env.trySelect(inner, field); ok {
					return v
				}
			}
		}
		if gh := ghostFieldHeap(structT, field); gh != "" {
			return st.loadField(env.heapMap(), base.S, structT, field)
		}
		env.fail("no field %s in %s", field, structT)
	case KSlice:
		switch field {
		case "arr":
			return base.Sub[0]
		case "off":
			return base.Sub[1]
		}
	case KString:
		if field == "off" {
			return base.Sub[1]
		}
	}
	env.fail("cannot select .%s", field)
	return Val{}
}

func (env *SpecEnv) trySelect(base Val, field string) (v Val, ok bool) {
	defer func() {
		if r := recover(); r != nil {
			if _, isVC := r.(vcErr); isVC {
				ok = false
				return
			}
			panic(r)
		}
	}()
	return env.selectField(base, field), true
}

func (env *SpecEnv) index(base, idx Val, n *SNode) Val {
	st := env.st
	for p := env.absProbe; p != nil; p = p.outer {
		if idx.S != p.name {
			if termMentions(idx.S, p.name) {
				p.mixedUse = true // the variable also occurs inside an index expression (s[4*k]): keep it relative
			}
			continue
		}
		o := ""
		switch base.K {
		case KSlice:
			o = base.off()
		case KString:
			o = base.soff()
		default:
			p.rawUse = true // also indexes a ghost sequence: keep the variable relative
			continue
		}
		if p == env.absProbe {
			if p.off == "" {
				p.off = o
			}
		} else if p.nestedOff == "" {
			p.nestedOff = o // use inside a nested quantifier (e.g. v[i] < v[j])
		}
	}
	switch base.K {
	case KSlice:
		if base.Heap != nil {
			return st.loadElem(base.Heap, base, idx.S)
		}
		return st.loadElem(env.heapMap(), base, idx.S)
	case KString:
		return vInt(base.at(idx.S), types.Typ[types.Uint8])
	case KArray:
		at := base.T.Underlying().(*types.Array)
		terms := make([]string, len(base.Sub))
		for i, c := range base.Sub {
			terms[i] = sSel(c.S, idx.S)
		}
		return unflatten(at.Elem(), terms)
	case KRaw:
		// raw SMT array (ghost sequences)
		inner := strings.TrimSuffix(strings.TrimPrefix(base.Sort, "(Array Int "), ")")
		if inner == "Int" {
			return vInt(sSel(base.S, idx.S), nil)
		}
		if inner == "Bool" {
			return vBool(sSel(base.S, idx.S))
		}
		return vRaw(sSel(base.S, idx.S), inner)
	case KInt:
		if base.T != nil {
			if classify(base.T) == tcMap {
				v, _ := st.mapLookupIn(env.heapMap(), base, base.T, idx)
				return v
			}
			if p, ok := base.T.Underlying().(*types.Pointer); ok {
				if _, isArr := p.Elem().Underlying().(*types.Array); isArr {
					return env.index(env.deref(base), idx, n)
				}
			}
		}
	}
	env.fail("cannot index %s", n.Args[0].String())
	return Val{}
}

func numVal(v Val) string {
	if v.K == KNil {
		return "0"
	}
	return v.S
}

func (env *SpecEnv) evalBin(n *SNode) Val {
	st := env.st
	switch n.Text {
	case "==>":
		a := env.evalBool(n.Args[0])
		b := env.evalBool(n.Args[1])
		return vBool(sImp(a, b))
	case "&&":
		return vBool(sAnd(env.evalBool(n.Args[0]), env.evalBool(n.Args[1])))
	case "||":
		return vBool(sOr(env.evalBool(n.Args[0]), env.evalBool(n.Args[1])))
	}
	a := env.eval(n.Args[0])
	b := env.eval(n.Args[1])
	switch n.Text {
	case "==", "!=":
		var r string
		if a.K == KBool && b.K == KBool {
			r = sEq(a.S, b.S)
		} else if a.K == KRaw && b.K == KRaw {
			r = sEq(a.S, b.S)
		} else {
			r = st.equal(a, b, a.T, b.T)
		}
		if n.Text == "!=" {
			r = sNot(r)
		}
		return vBool(r)
	case "<", "<=", ">", ">=":
		return vBool(sCmp(n.Text, numVal(a), numVal(b)))
	}
	t := a.T
	if t == nil {
		t = b.T
	}
	switch n.Text {
	case "+":
		return vInt(sAdd(a.S, b.S), t)
	case "-":
		return vInt(sSub(a.S, b.S), t)
	case "*":
		return vInt(sMul(a.S, b.S), t)
	case "/":
		// spec division: mathematical (floor) division; operands are expected non-negative
		return vInt(st.divmod("/", a.S, b.S, false), t)
	case "%":
		return vInt(st.divmod("%", a.S, b.S, false), t)
	case "<<":
		if k, ok := isNum(b.S); ok {
			return vInt(sMul(a.S, sNum(pow2(uint(k.Uint64())))), t)
		}
		st.fc.V.needPow2 = true
		return vInt(sMul(a.S, sApp("g_pow2", b.S)), t)
	case ">>":
		if k, ok := isNum(b.S); ok {
			return vInt(sApp("div", a.S, sNum(pow2(uint(k.Uint64())))), t)
		}
		st.fc.V.needPow2 = true
		return vInt(sApp("div", a.S, sApp("g_pow2", b.S)), t)
	case "&", "|", "^", "&^":
		bits, signed, ok := intInfo(t)
		if !ok {
			bits, signed = 64, false
		}
		return vInt(st.bitop(n.Text, a.S, b.S, bits, signed, n.String()), t)
	}
	env.fail("unsupported operator %s", n.Text)
	return Val{}
}

func (env *SpecEnv) evalQuant(n *SNode) Val {
	bind := map[string]Val{}
	var decl []string
	var names []string
	for _, v := range n.Vars {
		*env.qcount++
		name := fmt.Sprintf("g_q_%s_%d", v, *env.qcount)
		bind[v] = vInt(name, nil)
		decl = append(decl, "("+name+" Int)")
		names = append(names, name)
	}
	var lo, hi string
	if n.Args[0] != nil && n.Args[0].Op == "call" && (n.Args[0].Text == "refs" || n.Args[0].Text == "oldrefs") {
		// typed reference quantifier; oldrefs: only references that existed in the old() state
		tn := n.Args[0].Args[0].Text
		var pt types.Type
		if env.pkg != nil {
			if o := env.pkg.Types.Scope().Lookup(tn); o != nil {
				pt = types.NewPointer(o.Type())
			}
		}
		if pt == nil {
			env.fail("refs(%s): unknown type", tn)
		}
		for i, v := range n.Vars {
			bind[v] = vInt(names[i], pt)
		}
		c := env.child(bind)
		body := c.evalBool(n.Args[2])
		if n.Args[0].Text == "oldrefs" {
			// refs(T) ranges over all reference values (unallocated ones included: an invariant over refs(T) is a
			// statement about every cell of the field heaps, and allocation initialises the cells it hands out);
			// oldrefs(T) ranges over the references that already existed in the old() state
			oldAlloc := env.st.fc.entryAlloc()
			if env.old != nil && env.old.alloc != "" {
				oldAlloc = env.old.alloc
			}
			var bs []string
			for _, nm := range names {
				bs = append(bs, sCmp("<=", "0", nm), sCmp("<", nm, oldAlloc))
			}
			if n.Op == "forall" {
				body = sImp(sAnd(bs...), body)
			} else {
				body = sAnd(append(bs, body)...)
			}
		}
		if n.Op == "forall" {
			return vBool(fmt.Sprintf("(forall (%s) %s)", strings.Join(decl, " "), body))
		}
		return vBool(fmt.Sprintf("(exists (%s) %s)", strings.Join(decl, " "), body))
	}
	if n.Args[0] != nil {
		lo = env.eval(n.Args[0]).S
		hi = env.eval(n.Args[1]).S
	}
	// absolute-index form: if the body indexes a slice/string with exactly the bound variable and that
	// sequence has a non-zero offset O, quantify over g = O + k instead, so that select(row, g) is a
	// purely syntactic trigger (arithmetic moves to the non-trigger side).
	if len(n.Vars) == 1 {
		saved := env.absProbe
		env.absProbe = &absProbe{name: names[0], outer: saved}
		func() {
			defer func() { recover() }()
			env.child(bind).eval(n.Args[2])
		}()
		off := env.absProbe.off
		if off == "" && env.absProbe.nestedOff != "" && !env.absProbe.rawUse {
			off = env.absProbe.nestedOff
		}
		mixed := env.absProbe.mixedUse
		env.absProbe = saved
		if mixed && env.st != nil && env.st.fc != nil && env.st.fc.Contract != nil && env.st.fc.Contract.RelIdx {
			off = "" // mixed uses (k and 4*k as indices): the absolute form would hide the relative instances
		}
		if off != "" && termMentions(off, names[0]) {
			off = "" // the sequence itself depends on the bound variable (e.g. u[j].next[j]): stay relative
		}
		if off != "" && off != "0" {
			*env.qcount++
			g := fmt.Sprintf("g_qabs_%d", *env.qcount)
			bind[n.Vars[0]] = vInt("(- "+g+" "+off+")", nil)
			decl = []string{"(" + g + " Int)"}
			names = []string{"(- " + g + " " + off + ")"}
		}
	}
	c := env.child(bind)
	var rng []string
	if n.Args[0] != nil {
		for _, nm := range names {
			rng = append(rng, sCmp("<=", lo, nm), sCmp("<", nm, hi))
		}
	}
	body := c.evalBool(n.Args[2])
	if n.Op == "forall" {
		return vBool(fmt.Sprintf("(forall (%s) %s)", strings.Join(decl, " "), sImp(sAnd(rng...), body)))
	}
	return vBool(fmt.Sprintf("(exists (%s) %s)", strings.Join(decl, " "), sAnd(append(rng, body)...)))
}

type absProbe struct {
	outer     *absProbe // probes of enclosing quantifiers
	nestedOff string    // offset of a sequence the variable indexes only inside a nested quantifier
	mixedUse  bool      // the variable also occurs inside a compound index expression
	rawUse    bool      // the variable also indexes a ghost sequence
	name string
	off  string
}

func (env *SpecEnv) evalCall(n *SNode) Val {
	st := env.st
	args := func() []Val {
		var out []Val
		for _, a := range n.Args {
			out = append(out, env.eval(a))
		}
		return out
	}
	switch n.Text {
	case "old":
		oe := env.inOld()
		v := oe.eval(n.Args[0])
		if v.K == KSlice && v.Heap == nil {
			// old(slice) denotes the slice with its old content, also when passed on to spec functions
			v.Heap = oe.heapMap()
		}
		return v
	case "len":
		v := env.eval(n.Args[0])
		switch v.K {
		case KSlice, KString:
			return vInt(v.length(), intType)
		case KArray:
			return vInt(sInt(v.T.Underlying().(*types.Array).Len()), intType)
		case KInt:
			if v.T != nil && classify(v.T) == tcMap {
				return vInt(st.mapSizeIn(env.heapMap(), v, v.T), intType)
			}
		}
		env.fail("len of unsupported value %s", n.Args[0])
	case "cap":
		v := env.eval(n.Args[0])
		if v.K == KSlice {
			return vInt(v.capa(), intType)
		}
		env.fail("cap of non-slice")
	case "ite":
		c := env.evalBool(n.Args[0])
		a := env.eval(n.Args[1])
		b := env.eval(n.Args[2])
		if a.K == KBool {
			return vBool(sIte(c, a.S, b.S))
		}
		if a.K == KRaw {
			return vRaw(sIte(c, a.S, b.S), a.Sort)
		}
		r := a
		r.S = sIte(c, numVal(a), numVal(b))
		r.K = KInt
		return r
	case "min", "max":
		a := env.eval(n.Args[0])
		b := env.eval(n.Args[1])
		op := "<="
		if n.Text == "max" {
			op = ">="
		}
		return vInt(sIte(sCmp(op, a.S, b.S), a.S, b.S), a.T)
	case "abs":
		a := env.eval(n.Args[0])
		return vInt(sIte(sCmp(">=", a.S, "0"), a.S, sSub("0", a.S)), a.T)
	case "int", "int64", "uint64", "uint", "byte", "uint8", "uint16", "uint32", "int32", "rune", "int8", "int16", "uintptr":
		// spec-level conversions keep the mathematical value
		return env.eval(n.Args[0])
	case "wrap8", "wrap16", "wrap32", "wrap64":
		bits, _ := strconv.Atoi(n.Text[4:])
		a := env.eval(n.Args[0])
		return vInt(sApp("mod", a.S, sNum(pow2(uint(bits)))), a.T)
	case "fresh":
		// allocated after the old-state: id >= old alloc
		v := env.eval(n.Args[0])
		oldAlloc := st.fc.entryAlloc()
		if env.old != nil {
			oldAlloc = env.old.alloc
		}
		switch v.K {
		case KSlice:
			return vBool(sOr(sCmp(">=", v.arr(), oldAlloc), sAnd(sEq(v.capa(), "0"), sEq(v.length(), "0"))))
		case KInt:
			return vBool(sCmp(">=", v.S, oldAlloc))
		}
		env.fail("fresh of unsupported value")
	case "isnil":
		v := env.eval(n.Args[0])
		return vBool(st.equal(v, Val{K: KNil}, v.T, nil))
	case "sameArray":
		a := env.eval(n.Args[0])
		b := env.eval(n.Args[1])
		if a.K != KSlice || b.K != KSlice {
			return vBool("false") // strings are immutable values: never the same array as a slice
		}
		return vBool(sEq(a.arr(), b.arr()))
	case "disjoint":
		// the element ranges [0,cap) of two slices do not overlap
		a := env.eval(n.Args[0])
		b := env.eval(n.Args[1])
		if a.K == KString || b.K == KString {
			return vBool("true")
		}
		return vBool(sOr(sNot(sEq(a.arr(), b.arr())), sCmp("<=", sAdd(a.off(), a.capa()), b.off()), sCmp("<=", sAdd(b.off(), b.capa()), a.off())))
	case "sameSeq":
		// two byte sequences denote the same memory / the same immutable content
		a := env.eval(n.Args[0])
		b := env.eval(n.Args[1])
		if a.K == KSlice && b.K == KString {
			a, b = b, a
		}
		switch {
		case a.K == KString && b.K == KString:
			return vBool(sAnd(sEq(a.content(), b.content()), sEq(a.soff(), b.soff()), sEq(a.length(), b.length())))
		case a.K == KString && b.K == KSlice:
			h := st.heapIn(env.heapMap(), "E!uint8!", "(Array Int (Array Int Int))")
			return vBool(sAnd(sEq(a.content(), sSel(h, b.arr())), sEq(a.soff(), b.off()), sEq(a.length(), b.length())))
		case a.K == KSlice && b.K == KSlice:
			return vBool(sAnd(sEq(a.arr(), b.arr()), sEq(a.off(), b.off()), sEq(a.length(), b.length())))
		}
		env.fail("sameSeq on unsupported values")
	case "has":
		m := env.eval(n.Args[0])
		k := env.eval(n.Args[1])
		if m.T == nil || classify(m.T) != tcMap {
			env.fail("has needs a map")
		}
		_, present := st.mapLookupIn(env.heapMap(), m, m.T, k)
		return vBool(present)
	case "idseq":
		st.fc.V.addPrelude("g_idseq", "(declare-fun g_idseq () (Array Int Int))", "(assert (forall ((k Int)) (! (= (select g_idseq k) k) :pattern ((select g_idseq k)))))")
		return vRaw("g_idseq", "(Array Int Int)")
	case "anyseq":
		return vRaw(st.fc.fresh("seq", "(Array Int Int)"), "(Array Int Int)")
	case "compseq":
		// compseq(a, b)[k] = a[b[k]]
		a := env.eval(n.Args[0])
		b := env.eval(n.Args[1])
		c := st.fc.fresh("comp", "(Array Int Int)")
		st.addFact(fmt.Sprintf("(forall ((g_k Int)) (! (= (select %s g_k) (select %s (select %s g_k))) :pattern ((select %s g_k))))", c, a.S, b.S, c))
		return vRaw(c, "(Array Int Int)")
	case "swapseq":
		a := env.eval(n.Args[0])
		i := env.eval(n.Args[1]).S
		j := env.eval(n.Args[2]).S
		return vRaw(sStore(sStore(a.S, i, sSel(a.S, j)), j, sSel(a.S, i)), a.Sort)
	case "store":
		a := env.eval(n.Args[0])
		i := env.eval(n.Args[1])
		v := env.eval(n.Args[2])
		return vRaw(sStore(a.S, i.S, numVal(v)), a.Sort)
	case "bit":
		st.fc.V.bitPrelude()
		return vInt(sApp("g_bit", env.eval(n.Args[0]).S, env.eval(n.Args[1]).S), nil)
	case "pc64":
		st.fc.V.bitPrelude()
		return vInt(sApp("g_pc64", env.eval(n.Args[0]).S), nil)
	case "cmpapp":
		// cmpapp(f, a, b): the boolean result of the opaque binary function value f on scalar arguments
		f := env.eval(n.Args[0])
		a := env.eval(n.Args[1])
		b := env.eval(n.Args[2])
		st.fc.declareFun("g_app2_IntIntInt_r0", []string{"Int", "Int", "Int"}, "Bool")
		return vBool(sApp("g_app2_IntIntInt_r0", numVal(f), numVal(a), numVal(b)))
	case "app":
		f := env.eval(n.Args[0])
		var as []Val
		for _, a := range n.Args[1:] {
			as = append(as, env.eval(a))
		}
		if f.K == KFunc && f.Fn != nil && f.Fn.Sym != "" {
			return st.applyFuncValMode(f, as, true)
		}
		if f.K == KInt && f.T != nil {
			return st.applyOpaque(f, f.T, as)
		}
		env.fail("app: not a function value")
	case "ispow2":
		st.fc.V.ispow2Prelude()
		return vBool(sApp("g_ispow2", env.eval(n.Args[0]).S))
	case "allocated":
		// allocated(x): the reference (or reference-valued ghost integer) x is nil or an object that exists in the
		// state the expression is evaluated in (old state inside old())
		v := env.eval(n.Args[0])
		bound := st.alloc
		if env.heap != nil {
			bound = st.fc.entryAlloc()
			if env.old != nil && env.old.alloc != "" {
				bound = env.old.alloc
			}
		}
		x := v.S
		if v.K == KNil {
			x = "0"
		}
		return vBool(sAnd(sCmp("<=", "0", x), sCmp("<", x, bound)))
	case "cast":
		// cast(TypeName, e): the reference e viewed as *TypeName (unsafe.Pointer fields hold typed nodes)
		tn := n.Args[0].Text
		var pt types.Type
		if env.pkg != nil {
			if o := env.pkg.Types.Scope().Lookup(tn); o != nil {
				pt = types.NewPointer(o.Type())
			}
		}
		if pt == nil {
			env.fail("cast: unknown type %s", tn)
		}
		v := env.eval(n.Args[1])
		if v.K == KNil {
			return vInt("0", pt)
		}
		return vInt(v.S, pt)
	case "isString":
		v := env.eval(n.Args[0])
		return vBool(boolStr(v.K == KString))
	case "sameSlice":
		a := env.eval(n.Args[0])
		b := env.eval(n.Args[1])
		if a.K != KSlice || b.K != KSlice {
			return vBool("false")
		}
		return vBool(sAnd(sEq(a.arr(), b.arr()), sEq(a.off(), b.off()), sEq(a.length(), b.length()), sEq(a.capa(), b.capa())))
	case "runeOff":
		// runeOff(s, i, k): byte offset (relative to s) reached from byte offset i after k runes (clamped at the end)
		sv := env.eval(n.Args[0])
		i := env.eval(n.Args[1]).S
		k := env.eval(n.Args[2]).S
		st.fc.V.utf8Prelude()
		st.fc.V.addPrelude("u8off", "(define-fun-rec g_u8off ((c (Array Int Int)) (p Int) (e Int) (k Int)) Int (ite (or (<= k 0) (>= p e)) p (g_u8off c (+ p (g_utf8_width c p e)) e (- k 1))))")
		if sv.K != KString {
			env.fail("runeOff needs a string")
		}
		return vInt(sSub(sApp("g_u8off", sv.content(), sAdd(sv.soff(), i), sAdd(sv.soff(), sv.length()), k), sv.soff()), intType)
	case "runeCountFrom", "runeAt", "widthAt":
		// exact UTF-8 decoding of a string / byte sequence value at byte offset i
		sv := env.eval(n.Args[0])
		i := env.eval(n.Args[1]).S
		st.fc.V.utf8Prelude()
		var c, p, e string
		switch sv.K {
		case KString:
			c, p, e = sv.content(), sAdd(sv.soff(), i), sAdd(sv.soff(), sv.length())
		case KSlice:
			h := st.heapIn(env.heapMap(), "E!uint8!", "(Array Int (Array Int Int))")
			c, p, e = sSel(h, sv.arr()), sAdd(sv.off(), i), sAdd(sv.off(), sv.length())
		default:
			env.fail("%s needs a string or byte slice", n.Text)
		}
		switch n.Text {
		case "runeAt":
			return vInt(sApp("g_utf8_rune", c, p, e), nil)
		case "widthAt":
			return vInt(sApp("g_utf8_width", c, p, e), nil)
		}
		st.fc.V.addPrelude("u8count", "(define-fun-rec g_u8count ((c (Array Int Int)) (p Int) (e Int)) Int (ite (>= p e) 0 (+ 1 (g_u8count c (+ p (g_utf8_width c p e)) e))))")
		return vInt(sApp("g_u8count", c, p, e), nil)
	case "rowof", "offof":
		sv := env.eval(n.Args[0])
		if sv.K != KSlice {
			env.fail("%s needs a slice", n.Text)
		}
		if n.Text == "offof" {
			return vInt(sv.off(), intType)
		}
		et := sliceElemType(sv.T)
		cs := flatComps(et)
		if len(cs) != 1 {
			env.fail("rowof needs scalar elements")
		}
		heap := env.heapMap()
		if sv.Heap != nil {
			heap = sv.Heap
		}
		h := st.heapIn(heap, elemHeapName(et, cs[0]), elemSort(cs[0]))
		return vRaw(sSel(h, sv.arr()), "(Array Int "+cs[0].Sort+")")
	case "content", "sbeg", "send":
		sv := env.eval(n.Args[0])
		if sv.K != KString {
			env.fail("%s needs a string", n.Text)
		}
		switch n.Text {
		case "content":
			return vRaw(sv.content(), "(Array Int Int)")
		case "sbeg":
			return vInt(sv.soff(), intType)
		}
		return vInt(sAdd(sv.soff(), sv.length()), intType)
	case "u8off":
		c := env.eval(n.Args[0])
		st.fc.V.utf8Prelude()
		st.fc.V.addPrelude("u8off", "(define-fun-rec g_u8off ((c (Array Int Int)) (p Int) (e Int) (k Int)) Int (ite (or (<= k 0) (>= p e)) p (g_u8off c (+ p (g_utf8_width c p e)) e (- k 1))))")
		return vInt(sApp("g_u8off", c.S, env.eval(n.Args[1]).S, env.eval(n.Args[2]).S, env.eval(n.Args[3]).S), intType)
	case "u8count", "u8width", "u8rune":
		c := env.eval(n.Args[0])
		p := env.eval(n.Args[1]).S
		e := env.eval(n.Args[2]).S
		st.fc.V.utf8Prelude()
		switch n.Text {
		case "u8width":
			return vInt(sApp("g_utf8_width", c.S, p, e), nil)
		case "u8rune":
			return vInt(sApp("g_utf8_rune", c.S, p, e), nil)
		}
		st.fc.V.addPrelude("u8count", "(define-fun-rec g_u8count ((c (Array Int Int)) (p Int) (e Int)) Int (ite (>= p e) 0 (+ 1 (g_u8count c (+ p (g_utf8_width c p e)) e))))")
		return vInt(sApp("g_u8count", c.S, p, e), nil)
	case "oldUntouched":
		// every array of this element type that existed at function entry still has its entry content
		sv := env.eval(n.Args[0])
		if sv.K != KSlice {
			env.fail("oldUntouched needs a slice")
		}
		et := sliceElemType(sv.T)
		var parts []string
		oe := env.inOld()
		for _, c := range flatComps(et) {
			cur := st.heapIn(env.heapMap(), elemHeapName(et, c), elemSort(c))
			old := st.heapIn(oe.heapMap(), elemHeapName(et, c), elemSort(c))
			if cur == old {
				continue
			}
			*env.qcount++
			v := fmt.Sprintf("g_q_arr_%d", *env.qcount)
			parts = append(parts, fmt.Sprintf("(forall ((%s Int)) (! (=> (< %s %s) (= (select %s %s) (select %s %s))) :pattern ((select %s %s))))", v, v, st.fc.entryAlloc(), cur, v, old, v, cur, v))
		}
		return vBool(sAnd(parts...))
	case "elemIndexFrame":
		// every reference that is not an element of (old) s keeps its old index field; membership is decided
		// by the reference's own old index: 0 <= r.index < len(s) && s[r.index] == r (valid under idxOK(old s))
		sv := env.eval(n.Args[0])
		pt, ok := sliceElemType(sv.T).Underlying().(*types.Pointer)
		if sv.K != KSlice || !ok {
			env.fail("elemIndexFrame needs a slice of pointers")
		}
		structT := pt.Elem()
		_, comps, _ := fieldComps(structT, "index")
		if len(comps) != 1 {
			env.fail("elemIndexFrame: no scalar field index")
		}
		oe := env.inOld()
		hname := ptrHeapName(structT, comps[0])
		cur := st.heapIn(env.heapMap(), hname, ptrSort(comps[0]))
		old := st.heapIn(oe.heapMap(), hname, ptrSort(comps[0]))
		if cur == old {
			return vBool("true")
		}
		et := sliceElemType(sv.T)
		ecs := flatComps(et)
		hel := st.heapIn(oe.heapMap(), elemHeapName(et, ecs[0]), elemSort(ecs[0]))
		*env.qcount++
		r := fmt.Sprintf("g_q_ref_%d", *env.qcount)
		member := fmt.Sprintf("(not (forall ((g_mk Int)) (=> (and (<= %s g_mk) (< g_mk %s)) (not (= (select (select %s %s) g_mk) %s)))))", sv.off(), sAdd(sv.off(), sv.length()), hel, sv.arr(), r)
		return vBool(fmt.Sprintf("(forall ((%s Int)) (! (=> (and (< %s %s) (not %s)) (= (select %s %s) (select %s %s))) :pattern ((select %s %s))))", r, r, st.fc.entryAlloc(), member, cur, r, old, r, cur, r))
	case "frameOnly":
		// nothing that existed at function entry has changed except cells x[0:cap(x)] of x's array
		sv := env.eval(n.Args[0])
		if sv.K != KSlice {
			env.fail("frameOnly needs a slice")
		}
		et := sliceElemType(sv.T)
		var parts []string
		oe := env.inOld()
		for _, c := range flatComps(et) {
			cur := st.heapIn(env.heapMap(), elemHeapName(et, c), elemSort(c))
			old := st.heapIn(oe.heapMap(), elemHeapName(et, c), elemSort(c))
			if cur == old {
				continue
			}
			*env.qcount++
			v := fmt.Sprintf("g_q_fr_%d", *env.qcount)
			parts = append(parts, fmt.Sprintf("(forall ((%s Int)) (! (=> (and (< %s %s) (not (= %s %s))) (= (select %s %s) (select %s %s))) :pattern ((select %s %s))))", v, v, st.fc.entryAlloc(), v, sv.arr(), cur, v, old, v, cur, v))
			parts = append(parts, fmt.Sprintf("(forall ((%s Int)) (! (=> (not (and (<= %s %s) (< %s %s))) (= (select (select %s %s) %s) (select (select %s %s) %s))) :pattern ((select (select %s %s) %s))))",
				v, sv.off(), v, v, sAdd(sv.off(), sv.capa()), cur, sv.arr(), v, old, sv.arr(), v, cur, sv.arr(), v))
		}
		return vBool(sAnd(parts...))
	case "unchangedOutside":
		// cells of s's backing array outside s[lo:hi] have their old() values (absolute-index form, E-matching friendly)
		sv := env.eval(n.Args[0])
		lo := env.eval(n.Args[1]).S
		hi := env.eval(n.Args[2]).S
		if sv.K != KSlice {
			env.fail("unchangedOutside needs a slice")
		}
		et := sliceElemType(sv.T)
		var parts []string
		oe := env.inOld()
		for _, c := range flatComps(et) {
			cur := st.heapIn(env.heapMap(), elemHeapName(et, c), elemSort(c))
			old := st.heapIn(oe.heapMap(), elemHeapName(et, c), elemSort(c))
			*env.qcount++
			v := fmt.Sprintf("g_q_abs_%d", *env.qcount)
			parts = append(parts, fmt.Sprintf("(forall ((%s Int)) (! (=> (not (and (<= %s %s) (< %s %s))) (= (select (select %s %s) %s) (select (select %s %s) %s))) :pattern ((select (select %s %s) %s))))",
				v, sAdd(sv.off(), lo), v, v, sAdd(sv.off(), hi), cur, sv.arr(), v, old, sv.arr(), v, cur, sv.arr(), v))
		}
		return vBool(sAnd(parts...))
	case "locked", "rlocked":
		key := n.Args[0].String()
		lv := st.locks[key]
		if n.Text == "locked" {
			return vBool(boolStr(lv == 2))
		}
		return vBool(boolStr(lv >= 1))
	}
	// function-valued parameter / variable applied in a spec
	if v, ok := env.lookup(n.Text); ok && v.K == KFunc && v.Fn != nil && v.Fn.Sym != "" {
		return st.applyFuncValMode(v, args(), true)
	}
	if v, ok := env.lookup(n.Text); ok && v.K == KInt && v.T != nil && classify(v.T) == tcFunc {
		return st.applyOpaque(v, v.T, args())
	}
	if v, ok := env.lookup(n.Text); ok && v.K == KFunc && v.Obj != nil {
		env.fail("spec applies the declared function %s; use its contract instead", n.Text)
	}
	// user spec function
	if sf := env.findSpec(n.Text); sf != nil {
		return env.applySpec(sf, args(), n)
	}
	env.fail("unknown spec function %s", n.Text)
	return Val{}
}

func boolStr(b bool) string {
	if b {
		return "true"
	}
	return "false"
}

func (env *SpecEnv) findSpec(name string) *SpecFunc {
	V := env.st.fc.V
	if k := strings.Index(name, "."); k >= 0 {
		if pc := V.contractsByName[name[:k]]; pc != nil {
			return pc.Specs[name[k+1:]]
		}
		return nil
	}
	if env.pkg != nil {
		if pc := V.contractsByName[env.pkg.Types.Name()]; pc != nil {
			if sf := pc.Specs[name]; sf != nil {
				return sf
			}
		}
	}
	if pc := V.contractsByName["stdlib"]; pc != nil {
		if sf := pc.Specs[name]; sf != nil {
			return sf
		}
	}
	// any other package: the name must be unique there (an ambiguous name is an error, never a silent choice)
	var found *SpecFunc
	var pkgs []string
	for pn := range V.contractsByName {
		pkgs = append(pkgs, pn)
	}
	sort.Strings(pkgs)
	for _, pn := range pkgs {
		if sf := V.contractsByName[pn].Specs[name]; sf != nil {
			if found != nil && found.Src != sf.Src {
				env.fail("spec name %s is defined differently in more than one package (%s); qualify it as pkg.%s", name, pn, name)
			}
			if found == nil {
				found = sf
			}
		}
	}
	return found
}

func specSort(t string) string {
	switch t {
	case "int", "byte", "uint64", "uint", "uint32", "uint16", "uint8", "int64", "int32", "rune", "ref", "T", "K", "V":
		return "Int"
	case "bool":
		return "Bool"
	case "seq", "intseq":
		return "(Array Int Int)"
	case "boolseq":
		return "(Array Int Bool)"
	}
	return ""
}

// applySpec expands a spec function. Non-recursive ones are inlined (macro expansion over values);
// recursive / bodiless ones become SMT functions over scalar sorts.
func (env *SpecEnv) applySpec(sf *SpecFunc, args []Val, n *SNode) Val {
	st := env.st
	if len(args) != len(sf.Params) {
		env.fail("spec %s expects %d arguments", sf.Name, len(sf.Params))
	}
	if sf.Body != nil && !sf.Rec && sf.DefFun && scalarSpec(sf) {
		return env.applyScalarSpec(sf, args)
	}
	if sf.Body != nil && !sf.Rec {
		if env.depth > 40 {
			env.fail("spec expansion too deep in %s (recursive spec must be declared with recspec)", sf.Name)
		}
		bind := map[string]Val{}
		for i, p := range sf.Params {
			bind[p.Name] = args[i]
		}
		c := *env
		c.names = bind
		// spec bodies may mention bound quantifier variables only through parameters
		c.depth = env.depth + 1
		c.scope = nil
		c.scopePos = 0
		if pi := st.fc.V.pkgByName[sf.Pkg]; pi != nil {
			c.pkg = pi
		}
		return c.eval(sf.Body)
	}
	// SMT-level function: arguments are flattened to scalar terms
	sym := "g_sf_" + sf.Name
	var terms []string
	var sorts []string
	for i, a := range args {
		ps := specSort(sf.Params[i].Type)
		switch {
		case sf.Params[i].Type == "bytes":
			// a byte sequence argument: content array (+ length when the body uses len) of a string, or a snapshot of slice content
			// passed as (content array, offset[, length]): equal sequences give congruent terms without view symbols
			c, o, l := env.seqParts(a)
			terms = append(terms, c, o)
			sorts = append(sorts, "(Array Int Int)", "Int")
			if specUsesLen(sf, sf.Params[i].Name) {
				terms = append(terms, l)
				sorts = append(sorts, "Int")
			}
		case ps != "":
			switch {
			case a.K == KNil:
				terms = append(terms, "0")
			case a.K == KArray && len(a.Sub) == 1:
				terms = append(terms, a.Sub[0].S) // a Go array of scalars passed as a sequence
			default:
				terms = append(terms, a.S)
			}
			sorts = append(sorts, ps)
		default:
			env.fail("spec %s: unsupported parameter type %s", sf.Name, sf.Params[i].Type)
		}
	}
	rs := specSort(sf.Result)
	if rs == "" {
		env.fail("spec %s: unsupported result type %s", sf.Name, sf.Result)
	}
	st.fc.V.useSpecFun(st.fc, sf, sym, sorts, rs)
	t := sApp(sym, terms...)
	if len(terms) == 0 {
		t = sym
	}
	if rs == "Bool" {
		return vBool(t)
	}
	if rs == "Int" {
		return vInt(t, nil)
	}
	return vRaw(t, rs)
}

// seqOf gives (content array, length) of a byte sequence value in the current heap view.
func (env *SpecEnv) seqOf(a Val) (string, string) {
	st := env.st
	switch a.K {
	case KString:
		if a.soff() == "0" {
			return a.content(), a.length()
		}
		return st.fc.seqView(a.content(), a.soff()), a.length()
	case KSlice:
		et := sliceElemType(a.T)
		cs := flatComps(et)
		if len(cs) != 1 || cs[0].Sort != "Int" {
			env.fail("sequence view needs scalar elements")
		}
		heap := env.heapMap()
		if a.Heap != nil {
			heap = a.Heap
		}
		h := st.heapIn(heap, elemHeapName(et, cs[0]), elemSort(cs[0]))
		row := sSel(h, a.arr())
		if a.off() == "0" {
			return row, a.length()
		}
		return st.fc.seqView(row, a.off()), a.length()
	case KRaw:
		return a.S, "0"
	}
	env.fail("not a sequence")
	return "", ""
}

// seqParts gives (content array, offset, length) of a byte sequence value in the current heap view.
func (env *SpecEnv) seqParts(a Val) (string, string, string) {
	st := env.st
	switch a.K {
	case KString:
		return a.content(), a.soff(), a.length()
	case KSlice:
		et := sliceElemType(a.T)
		cs := flatComps(et)
		if len(cs) != 1 || cs[0].Sort != "Int" {
			env.fail("sequence argument needs scalar elements")
		}
		heap := env.heapMap()
		if a.Heap != nil {
			heap = a.Heap
		}
		h := st.heapIn(heap, elemHeapName(et, cs[0]), elemSort(cs[0]))
		return sSel(h, a.arr()), a.off(), a.length()
	case KRaw:
		return a.S, "0", "0"
	}
	env.fail("not a sequence")
	return "", "", ""
}

// seqView returns the canonical symbol for the sequence k -> base[off+k]; the same (base, off) always yields the
// same symbol, so that recursive spec functions applied to it give syntactically equal terms on every path.
func (fc *FuncCtx) seqView(base, off string) string {
	key := base + "|" + off
	if fc.views == nil {
		fc.views = map[string]string{}
	}
	if v, ok := fc.views[key]; ok {
		return v
	}
	v := fc.fresh("seqview", "(Array Int Int)")
	fc.views[key] = v
	fc.viewDefs = append(fc.viewDefs, [2]string{v, fmt.Sprintf("(forall ((g_k Int)) (! (= (select %s g_k) (select %s (+ g_k %s))) :pattern ((select %s g_k))))", v, base, off, v)})
	return v
}

// ---- helpers used by the executor ----

func (fc *FuncCtx) newSpecEnv(st *State, names map[string]Val, old *Snapshot, pos token.Pos, what string) *SpecEnv {
	q := 0
	env := &SpecEnv{st: st, old: old, names: names, pkg: st.pkg(), what: what, qcount: &q}
	if env.names == nil {
		env.names = map[string]Val{}
	}
	if pos.IsValid() {
		env.scopePos = pos
		env.scope = st.pkg().Types.Scope().Innermost(pos)
	}
	return env
}

func constToBig(v constant.Value) *big.Int {
	n, _ := new(big.Int).SetString(v.ExactString(), 10)
	return n
}

func scalarSpec(sf *SpecFunc) bool {
	if specSort(sf.Result) != "Int" && specSort(sf.Result) != "Bool" {
		return false
	}
	for _, p := range sf.Params {
		if s := specSort(p.Type); s != "Int" && s != "Bool" {
			return false
		}
	}
	return len(sf.Params) > 0
}

// applyScalarSpec: non-recursive spec functions over scalars become SMT define-funs (keeps VCs small).
func (env *SpecEnv) applyScalarSpec(sf *SpecFunc, args []Val) Val {
	st := env.st
	V := st.fc.V
	sym := "g_sf_" + sf.Name
	if !V.preludeSeen[sym] {
		V.preludeSeen[sym] = true
		tmp := &FuncCtx{V: V, Pkg: st.fc.Pkg, Name: "spec " + sf.Name, declared: map[string]bool{}, oblCount: map[string]int{}, heapSorts: map[string]string{}}
		ts := &State{fc: tmp, ghost: map[string]Val{}, heap: map[string]string{}, locks: map[string]int{}, alloc: "0"}
		bind := map[string]Val{}
		var params []string
		for _, p := range sf.Params {
			srt := specSort(p.Type)
			params = append(params, "(p_"+p.Name+" "+srt+")")
			if srt == "Bool" {
				bind[p.Name] = vBool("p_" + p.Name)
			} else {
				bind[p.Name] = vInt("p_"+p.Name, nil)
			}
		}
		q := 0
		e2 := &SpecEnv{st: ts, names: bind, pkg: V.pkgByName[sf.Pkg], what: "spec " + sf.Name, qcount: &q}
		body := e2.eval(sf.Body)
		if len(tmp.decls) > 0 || ts.facts != nil {
			panic(vcErr("spec " + sf.Name + " over scalars must be closed"))
		}
		V.prelude = append(V.prelude, fmt.Sprintf("(define-fun %s (%s) %s %s)", sym, strings.Join(params, " "), specSort(sf.Result), body.S))
	}
	var terms []string
	for _, a := range args {
		terms = append(terms, numVal(a))
	}
	t := sApp(sym, terms...)
	if specSort(sf.Result) == "Bool" {
		return vBool(t)
	}
	return vInt(t, nil)
}

// specUsesLen: does the body of a spec function mention len(<param>)?
func specUsesLen(sf *SpecFunc, param string) bool {
	var walk func(n *SNode) bool
	walk = func(n *SNode) bool {
		if n == nil {
			return false
		}
		if n.Op == "call" && (n.Text == "len" || n.Text == "cap") && len(n.Args) == 1 && n.Args[0].Op == "id" && n.Args[0].Text == param {
			return true
		}
		// passing the parameter on to another spec function: be conservative
		if n.Op == "call" && n.Text != sf.Name {
			for _, a := range n.Args {
				if a.Op == "id" && a.Text == param {
					if n.Text != "len" && n.Text != "cap" {
						return true
					}
				}
			}
		}
		for _, a := range n.Args {
			if walk(a) {
				return true
			}
		}
		return false
	}
	return walk(sf.Body)
}

// termMentions: the symbol occurs in the term as a whole token
func termMentions(term, sym string) bool {
	for i := 0; ; {
		k := strings.Index(term[i:], sym)
		if k < 0 {
			return false
		}
		k += i
		e := k + len(sym)
		okL := k == 0 || strings.ContainsRune(" ()", rune(term[k-1]))
		okR := e == len(term) || strings.ContainsRune(" ()", rune(term[e]))
		if okL && okR {
			return true
		}
		i = e
	}
}
