package main

// Lock discipline (guarded_by) support. A struct type may declare
//   //@ type SafeKV
//   //@   guarded_by mu: entries
// Every read of a guarded field needs at least the read lock, every write the write lock.
// Lock state is tracked per path, keyed by the receiver expression text of the mutex ("s.mu").

import (
	"fmt"
	"strings"
	"go/ast"
	"go/token"
	"go/types"
)

func (st *State) lockEntry(fct *FuncContract) {}

func (st *State) checkCallLocks(fct *FuncContract, names map[string]Val, tag string, pos token.Pos) {}

func (st *State) applyCallLockEffects(fct *FuncContract, names map[string]Val) {}

func (st *State) checkLockExit(fct *FuncContract, pos token.Pos) {
	for k, v := range st.locks {
		if strings.HasPrefix(k, "#") {
			continue
		}
		if v != 0 {
			st.oblige("lock-balance", "released("+k+")", "false", pos)
		}
	}
}

func (st *State) guardedBy(structT types.Type, field string) (string, bool) {
	n, ok := structT.(*types.Named)
	if !ok {
		return "", false
	}
	pkg := ""
	if n.Obj().Pkg() != nil {
		pkg = n.Obj().Pkg().Name()
	}
	pc := st.fc.V.contractsByName[pkg]
	if pc == nil {
		return "", false
	}
	ts := pc.Types[n.Origin().Obj().Name()]
	if ts == nil {
		return "", false
	}
	mu, ok := ts.GuardedBy[field]
	return mu, ok
}

func (st *State) guardCheck(structT types.Type, field string, ref Val, write bool, pos token.Pos, what string) {
	mu, ok := st.guardedBy(structT, field)
	if !ok {
		return
	}
	_ = mu
	// the lock key is "<base>.<mu>" where base is the expression the field is selected from
	// what = "s.entries" -> base "s"
	base := what
	for i := len(what) - 1; i >= 0; i-- {
		if what[i] == '.' {
			base = what[:i]
			break
		}
	}
	key := base + "." + mu
	lv := st.locks[key]
	if write {
		st.oblige("guarded-by", "write("+what+")", boolStr(lv == 2), pos)
	} else {
		st.oblige("guarded-by", "read("+what+")", boolStr(lv >= 1), pos)
	}
}

var _ = ast.Unparen


// ---------------------------------------------------------------------------------------------------------------
// Rely-guarantee mode (functions with rely / guarantee / sharedinv clauses).
// Every call into sync/atomic is an atomic step of this goroutine. Between two of its steps the other goroutines may
// take any number of steps: before each atomic step the whole shared state (every heap) is replaced by an arbitrary
// one related to the previous one by the rely relations (which must be reflexive and transitive: they are written
// as "never changes once set" / "only grows" facts) and satisfying the shared invariants. Right after the step and
// the ghost updates attached to it (anchor after-callN), the step as a whole (state before -> state after) must
// satisfy every guarantee clause and re-establish every shared invariant. Soundness is the standard rely-guarantee
// rule: each guarantee must imply the rely of every other goroutine running the same code (argued in DESIGN.md).
// Local variables are never havocked; plain (non-atomic) accesses to shared memory are not interference points.
// ---------------------------------------------------------------------------------------------------------------

func (fc *FuncCtx) isRG() bool {
	c := fc.Contract
	return c != nil && (len(c.Rely) > 0 || len(c.Guarantee) > 0 || len(c.SharedInv) > 0)
}

func (st *State) rgAssumeInv(pos token.Pos, what string) {
	fc := st.fc
	for _, c := range fc.Contract.SharedInv {
		env := fc.newSpecEnv(st, nil, fc.entrySnap, pos, fc.Name+"/sharedinv")
		st.assume(env.evalBool(c.Expr))
	}
}

// rgStabilize models the interference of the environment before an atomic step.
func (st *State) rgStabilize(pos token.Pos) {
	fc := st.fc
	if !fc.rgClosureDone && fc.rec == nil {
		// (checked once per function, at the first interference point, where the locals the clauses mention exist)
		fc.rgClosureDone = true
		st.clone().rgCheckRelyClosure(pos)
	}
	old := st.snapshot(nil)
	var names []string
	for n := range st.heap {
		names = append(names, n)
	}
	sortStrings(names)
	for _, n := range names {
		st.heapHavoc(n, fc.heapSorts[n])
	}
	st.rgLate = true
	for _, c := range fc.Contract.Rely {
		env := fc.newSpecEnv(st, nil, old, pos, fc.Name+"/rely")
		st.assume(env.evalBool(c.Expr))
	}
	st.rgAssumeInv(pos, "stabilize")
	st.rgPre = st.snapshot(nil)
}

// rgCheckStep: the pending atomic step (with its ghost updates) satisfies the guarantee and the shared invariant.
func (st *State) rgCheckStep(anchor string, pos token.Pos) {
	fc := st.fc
	if st.rgPre == nil {
		return
	}
	pre := st.rgPre
	st.rgPre = nil
	for i, c := range fc.Contract.Guarantee {
		env := fc.newSpecEnv(st, nil, pre, pos, fc.Name+"/guarantee")
		st.oblige("guarantee", fmt.Sprintf("%s/guarantee%d", anchor, i+1), env.evalBool(c.Expr), pos)
	}
	for i, c := range fc.Contract.SharedInv {
		env := fc.newSpecEnv(st, nil, pre, pos, fc.Name+"/sharedinv")
		g := env.evalBool(c.Expr)
		st.oblige("sharedinv", fmt.Sprintf("%s/sharedinv%d", anchor, i+1), g, pos)
		st.assume(g)
	}
}


// rgCheckRelyClosure: the rely relation of this function is reflexive and transitive (so that one rely step between two
// of my atomic steps stands for any number of steps of the environment). Checked on three arbitrary shared states
// s0 -R-> s1 -R-> s2 (all satisfying the shared invariant, local variables fixed): R(s0,s2) must follow.
func (st *State) rgCheckRelyClosure(pos token.Pos) {
	fc := st.fc
	if len(fc.Contract.Rely) == 0 {
		return
	}
	// touch every heap the clauses mention, so that all of them get havocked below
	s0 := st
	func() {
		defer func() { recover() }()
		for _, c := range fc.Contract.Rely {
			fc.newSpecEnv(s0, nil, s0.snapshot(nil), pos, fc.Name+"/rely").evalBool(c.Expr)
		}
	}()
	snap0 := s0.snapshot(nil)
	// reflexivity
	for i, c := range fc.Contract.Rely {
		env := fc.newSpecEnv(s0, nil, snap0, pos, fc.Name+"/rely-reflexive")
		s0.oblige("rely-closure", fmt.Sprintf("reflexive/rely%d", i+1), env.evalBool(c.Expr), pos)
	}
	step := func(s *State) *Snapshot {
		old := s.snapshot(nil)
		var names []string
		for n := range s.heap {
			names = append(names, n)
		}
		sortStrings(names)
		for _, n := range names {
			s.heapHavoc(n, fc.heapSorts[n])
		}
		for _, c := range fc.Contract.Rely {
			s.assume(fc.newSpecEnv(s, nil, old, pos, fc.Name+"/rely").evalBool(c.Expr))
		}
		s.rgAssumeInv(pos, "closure")
		return old
	}
	step(s0)
	step(s0)
	for i, c := range fc.Contract.Rely {
		env := fc.newSpecEnv(s0, nil, snap0, pos, fc.Name+"/rely-transitive")
		s0.oblige("rely-closure", fmt.Sprintf("transitive/rely%d", i+1), env.evalBool(c.Expr), pos)
	}
}
