package main

// Lock discipline (guarded_by) support. A struct type may declare
//   //@ type SafeKV
//   //@   guarded_by mu: entries
// Every read of a guarded field needs at least the read lock, every write the write lock.
// Lock state is tracked per path, keyed by the receiver expression text of the mutex ("s.mu").

import (
	"strings"
	"go/ast"
	"go/token"
	"go/types"
)

func (st *State) lockEntry(fct *FuncContract) {}

func (st *State) checkCallLocks(fct *FuncContract, names map[string]Val, tag string, pos token.Pos) {}

func (st *State) applyCallLockEffects(fct *FuncContract, names map[string]Val) {}

func (st *State) checkLockExit(fct *FuncContract, pos token.Pos) {
	for k, v := range st.locks {
		if strings.HasPrefix(k, "#") {
			continue
		}
		if v != 0 {
			st.oblige("lock-balance", "released("+k+")", "false", pos)
		}
	}
}

func (st *State) guardedBy(structT types.Type, field string) (string, bool) {
	n, ok := structT.(*types.Named)
	if !ok {
		return "", false
	}
	pkg := ""
	if n.Obj().Pkg() != nil {
		pkg = n.Obj().Pkg().Name()
	}
	pc := st.fc.V.contractsByName[pkg]
	if pc == nil {
		return "", false
	}
	ts := pc.Types[n.Origin().Obj().Name()]
	if ts == nil {
		return "", false
	}
	mu, ok := ts.GuardedBy[field]
	return mu, ok
}

func (st *State) guardCheck(structT types.Type, field string, ref Val, write bool, pos token.Pos, what string) {
	mu, ok := st.guardedBy(structT, field)
	if !ok {
		return
	}
	_ = mu
	// the lock key is "<base>.<mu>" where base is the expression the field is selected from
	// what = "s.entries" -> base "s"
	base := what
	for i := len(what) - 1; i >= 0; i-- {
		if what[i] == '.' {
			base = what[:i]
			break
		}
	}
	key := base + "." + mu
	lv := st.locks[key]
	if write {
		st.oblige("guarded-by", "write("+what+")", boolStr(lv == 2), pos)
	} else {
		st.oblige("guarded-by", "read("+what+")", boolStr(lv >= 1), pos)
	}
}

var _ = ast.Unparen
