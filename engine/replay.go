package main

// Replay of solver counterexamples against the real code: an in-package test is generated
// from the model and injected with `go test -overlay`, so nothing is written into the repository.

import (
	"bytes"
	"context"
	"encoding/json"
	"fmt"
	"go/types"
	"os"
	"os/exec"
	"path/filepath"
	"strconv"
	"strings"
	"time"
)

type ReplayResult struct {
	Ran        bool   `json:"ran"`
	Confirmed  bool   `json:"confirmed"`
	Expect     string `json:"expect"`
	Output     string `json:"output"`
	TestSource string `json:"test_source"`
	Reason     string `json:"reason,omitempty"`
}

func modelInt(m map[string]string, key string) (int64, bool) {
	v, ok := m[key]
	if !ok {
		return 0, false
	}
	n, err := strconv.ParseInt(strings.TrimSpace(v), 10, 64)
	if err != nil {
		// large unsigned values
		u, err2 := strconv.ParseUint(strings.TrimSpace(v), 10, 64)
		if err2 != nil {
			return 0, false
		}
		return int64(u), true
	}
	return n, true
}

func replayModel(V *Verifier, fi *FuncInfo, ob *Obligation, repo, wd string) *ReplayResult {
	rr := &ReplayResult{}
	if fi.Decl.Recv != nil {
		rr.Reason = "methods are not replayed from models (receiver state is not reconstructed)"
		return rr
	}
	sig := fi.Obj.Type().(*types.Signature)
	var b bytes.Buffer
	fmt.Fprintf(&b, "package %s\n\nimport (\n\t\"fmt\"\n\t\"testing\"\n\t\"unicode/utf8\"\n)\n\n", fi.Pkg.Name)
	b.WriteString("func govcRuneAt[T ~string | ~[]byte](s T, i int64) int64 {\n\tr, _ := utf8.DecodeRuneInString(string(s[i:]))\n\treturn int64(r)\n}\n\n")
	b.WriteString("func govcWidthAt[T ~string | ~[]byte](s T, i int64) int64 {\n\t_, w := utf8.DecodeRuneInString(string(s[i:]))\n\treturn int64(w)\n}\n\n")
	b.WriteString("func govcToI[T ~int | ~int8 | ~int16 | ~int32 | ~int64 | ~uint | ~uint8 | ~uint16 | ~uint32 | ~uint64 | ~uintptr](x T) int64 { return int64(x) }\n\n")
	b.WriteString("func TestGovcReplay(t *testing.T) {\n")
	var argNames []string
	var setup, olds bytes.Buffer
	backing := map[string]string{} // arr id -> backing variable
	ptypes := map[string]types.Type{}
	for i := 0; i < sig.Params().Len(); i++ {
		p := sig.Params().At(i)
		name := p.Name()
		if name == "" || name == "_" {
			name = fmt.Sprintf("a%d", i)
		}
		argNames = append(argNames, name)
		ptypes[name] = p.Type()
		switch classify(p.Type()) {
		case tcInt:
			n, _ := modelInt(ob.Model, p.Name())
			tn := types.TypeString(p.Type(), func(pk *types.Package) string {
				if pk == fi.Pkg.Types {
					return ""
				}
				return pk.Name()
			})
			if _, signed, _ := intInfo(p.Type()); !signed {
				fmt.Fprintf(&setup, "\tvar %s %s = %s(uint64(%d))\n", name, tn, tn, uint64(n))
			} else {
				fmt.Fprintf(&setup, "\tvar %s %s = %d\n", name, tn, n)
			}
		case tcBool:
			fmt.Fprintf(&setup, "\tvar %s bool = %s\n", name, ob.Model[p.Name()])
		case tcString:
			ln, _ := modelInt(ob.Model, p.Name()+".len")
			if ln > 4096 {
				rr.Reason = "model needs a very large string"
				return rr
			}
			fmt.Fprintf(&setup, "\t%s_b := make([]byte, %d)\n", name, ln)
			for k := int64(0); k < ln && k < 12; k++ {
				if v, ok := modelInt(ob.Model, fmt.Sprintf("%s[%d]", p.Name(), k)); ok {
					fmt.Fprintf(&setup, "\t%s_b[%d] = byte(%d)\n", name, k, v)
				}
			}
			fmt.Fprintf(&setup, "\t%s := string(%s_b)\n", name, name)
		case tcSlice, tcTParamSeq:
			elem := "byte"
			if classify(p.Type()) == tcSlice {
				et := sliceElemType(p.Type())
				if classify(et) != tcInt {
					rr.Reason = "slice element type not reconstructible from the model"
					return rr
				}
				elem = types.TypeString(et, nil)
			}
			ln, _ := modelInt(ob.Model, p.Name()+".len")
			cp, ok := modelInt(ob.Model, p.Name()+".cap")
			if !ok {
				cp = ln
			}
			off, _ := modelInt(ob.Model, p.Name()+".off")
			arr := ob.Model[p.Name()+".arr"]
			if cp > 1<<16 || off > 1<<16 || ln > cp {
				rr.Reason = "model needs a very large or ill-formed slice"
				return rr
			}
			if arr == "0" {
				fmt.Fprintf(&setup, "\tvar %s []%s\n", name, elem)
			} else {
				bk, have := backing[arr+elem]
				if !have {
					bk = "bk_" + name
					backing[arr+elem] = bk
					fmt.Fprintf(&setup, "\t%s := make([]%s, %d)\n", bk, elem, 1<<17)
				}
				fmt.Fprintf(&setup, "\t%s := %s[%d:%d:%d]\n", name, bk, off, off+ln, off+cp)
				for k := int64(0); k < ln && k < 12; k++ {
					if v, ok := modelInt(ob.Model, fmt.Sprintf("%s[%d]", p.Name(), k)); ok {
						fmt.Fprintf(&setup, "\t%s[%d] = %s(%d)\n", name, k, elem, v)
					}
				}
			}
			fmt.Fprintf(&olds, "\told_%s := append([]%s(nil), %s...)\n\t_ = old_%s\n", name, elem, name, name)
		default:
			rr.Reason = "parameter " + p.Name() + " of type " + p.Type().String() + " is not reconstructible from the model"
			return rr
		}
	}
	b.Write(setup.Bytes())
	b.Write(olds.Bytes())
	// expectation
	panicKinds := map[string]bool{"bounds": true, "nil": true, "div0": true, "panic-unreachable": true, "shift": true}
	nres := sig.Results().Len()
	var resNames []string
	for i := 0; i < nres; i++ {
		resNames = append(resNames, fmt.Sprintf("res%d", i+1))
	}
	b.WriteString("\tdefer func() {\n\t\tif r := recover(); r != nil {\n\t\t\tfmt.Println(\"GOVC-REPLAY: panic:\", r)\n\t\t}\n\t}()\n")
	call := fi.Obj.Name() + "(" + strings.Join(argNames, ", ") + ")"
	if nres > 0 {
		fmt.Fprintf(&b, "\t%s := %s\n", strings.Join(resNames, ", "), call)
		fmt.Fprintf(&b, "\tfmt.Println(\"GOVC-REPLAY: returned\", %s)\n", strings.Join(resNames, ", "))
	} else {
		fmt.Fprintf(&b, "\t%s\n\tfmt.Println(\"GOVC-REPLAY: returned\")\n", call)
	}
	postChecked := false
	if ob.Kind == "post" && strings.HasPrefix(ob.Detail2(), "ensures") {
		// "ensures3", "ensures3.c2" (a conjunct of it), "ensures3{group}" all name ensures clause 3
		digits := strings.TrimPrefix(ob.Detail2(), "ensures")
		for k, ch := range digits {
			if ch < '0' || ch > '9' {
				digits = digits[:k]
				break
			}
		}
		idx, _ := strconv.Atoi(digits)
		fct := V.contractFor(fi.Obj)
		if fct != nil && idx >= 1 && idx <= len(fct.Ensures) {
			tr := &goTranslator{ptypes: ptypes, results: resNames, sig: sig, V: V, pkg: fi.Pkg.Name}
			if g, err := tr.boolExpr(fct.Ensures[idx-1].Expr, false); err == nil {
				fmt.Fprintf(&b, "\tif !(%s) {\n\t\tfmt.Println(\"GOVC-REPLAY: postcondition violated: %s\")\n\t} else {\n\t\tfmt.Println(\"GOVC-REPLAY: postcondition holds\")\n\t}\n", g, strings.ReplaceAll(fct.Ensures[idx-1].Src, "\"", "'"))
				postChecked = true
			} else {
				rr.Reason = "postcondition not executable: " + err.Error()
			}
		}
	}
	b.WriteString("}\n")
	rr.TestSource = b.String()
	if panicKinds[ob.Kind] {
		rr.Expect = "panic"
	} else if postChecked {
		rr.Expect = "postcondition violated"
	} else {
		rr.Expect = "none (obligation kind " + ob.Kind + " has no executable oracle)"
	}
	// run
	testFile := filepath.Join(wd, "govc_replay_test.go")
	os.WriteFile(testFile, []byte(rr.TestSource), 0o644)
	ov := map[string]map[string]string{"Replace": {filepath.Join(fi.Pkg.Dir, "govc_replay_test.go"): testFile}}
	ovData, _ := json.Marshal(ov)
	ovFile := filepath.Join(wd, "overlay.json")
	os.WriteFile(ovFile, ovData, 0o644)
	ctx, cancel := context.WithTimeout(context.Background(), 120*time.Second)
	defer cancel()
	cmd := exec.CommandContext(ctx, "go", "test", "-overlay", ovFile, "-vet=off", "-timeout", "60s", "-count=1", "-run", "^TestGovcReplay$", "-v", ".")
	cmd.Dir = fi.Pkg.Dir
	cmd.Env = append(os.Environ(), "GOFLAGS=-mod=mod", "GOPROXY=off", "GOSUMDB=off", "GOTOOLCHAIN=local")
	var out bytes.Buffer
	cmd.Stdout = &out
	cmd.Stderr = &out
	cmd.Run()
	rr.Ran = true
	var keep []string
	for _, l := range strings.Split(out.String(), "\n") {
		if strings.Contains(l, "GOVC-REPLAY") || strings.Contains(l, "FAIL") || strings.Contains(l, "error") {
			keep = append(keep, l)
		}
	}
	rr.Output = strings.Join(keep, "\n")
	switch rr.Expect {
	case "panic":
		rr.Confirmed = strings.Contains(rr.Output, "GOVC-REPLAY: panic:")
	case "postcondition violated":
		rr.Confirmed = strings.Contains(rr.Output, "GOVC-REPLAY: postcondition violated") || strings.Contains(rr.Output, "GOVC-REPLAY: panic:")
	}
	return rr
}

// Detail2 is the last path component of the obligation name.
func (ob *Obligation) Detail2() string {
	k := strings.LastIndex(ob.Name, "/")
	return ob.Name[k+1:]
}

// ---- spec -> Go (executable contracts, subset) ----

type goTranslator struct {
	ptypes  map[string]types.Type
	results []string
	sig     *types.Signature
	bound   map[string]bool
	V       *Verifier
	pkg     string
	depth   int
}

// userSpec: a non-recursive spec function of the package (or of the stdlib contracts), to be unfolded
func (g *goTranslator) userSpec(name string) *SpecFunc {
	if g.V == nil || g.depth > 6 {
		return nil
	}
	for _, pn := range []string{g.pkg, "stdlib"} {
		if pc := g.V.contractsByName[pn]; pc != nil {
			if sf := pc.Specs[name]; sf != nil && !sf.Rec && sf.Body != nil {
				return sf
			}
		}
	}
	return nil
}

func substSNode(n *SNode, m map[string]*SNode) *SNode {
	if n == nil {
		return nil
	}
	if n.Op == "id" {
		if r, ok := m[n.Text]; ok {
			return r
		}
		return n
	}
	c := *n
	c.Args = make([]*SNode, len(n.Args))
	m2 := m
	if len(n.Vars) > 0 && (n.Op == "forall" || n.Op == "exists" || n.Op == "let") {
		m2 = map[string]*SNode{}
		for k, v := range m {
			m2[k] = v
		}
		for _, v := range n.Vars {
			delete(m2, v)
		}
	}
	for i, a := range n.Args {
		c.Args[i] = substSNode(a, m2)
	}
	return &c
}

func (g *goTranslator) unfold(sf *SpecFunc, n *SNode) (*SNode, error) {
	if len(sf.Params) != len(n.Args) {
		return nil, fmt.Errorf("spec %s: arity", sf.Name)
	}
	m := map[string]*SNode{}
	for i, p := range sf.Params {
		m[p.Name] = n.Args[i]
	}
	return substSNode(sf.Body, m), nil
}

func (g *goTranslator) iteExpr(n *SNode, old bool, branch func(*SNode, bool) (string, error), typ string) (string, error) {
	c, err := g.boolExpr(n.Args[0], old)
	if err != nil {
		return "", err
	}
	a, err := branch(n.Args[1], old)
	if err != nil {
		return "", err
	}
	b, err := branch(n.Args[2], old)
	if err != nil {
		return "", err
	}
	return fmt.Sprintf("func() %s { if %s { return %s }; return %s }()", typ, c, a, b), nil
}

func (g *goTranslator) boolExpr(n *SNode, old bool) (string, error) {
	switch n.Op {
	case "bin":
		switch n.Text {
		case "==>":
			a, err := g.boolExpr(n.Args[0], old)
			if err != nil {
				return "", err
			}
			b, err := g.boolExpr(n.Args[1], old)
			if err != nil {
				return "", err
			}
			return "(!(" + a + ") || (" + b + "))", nil
		case "&&", "||":
			a, err := g.boolExpr(n.Args[0], old)
			if err != nil {
				return "", err
			}
			b, err := g.boolExpr(n.Args[1], old)
			if err != nil {
				return "", err
			}
			return "((" + a + ") " + n.Text + " (" + b + "))", nil
		case "==", "!=", "<", "<=", ">", ">=":
			if g.isBool(n.Args[0]) {
				a, err := g.boolExpr(n.Args[0], old)
				if err != nil {
					return "", err
				}
				b, err := g.boolExpr(n.Args[1], old)
				if err != nil {
					return "", err
				}
				return "((" + a + ") " + n.Text + " (" + b + "))", nil
			}
			a, err := g.intExpr(n.Args[0], old)
			if err != nil {
				return "", err
			}
			b, err := g.intExpr(n.Args[1], old)
			if err != nil {
				return "", err
			}
			return "(" + a + " " + n.Text + " " + b + ")", nil
		}
	case "un":
		if n.Text == "!" {
			a, err := g.boolExpr(n.Args[0], old)
			if err != nil {
				return "", err
			}
			return "!(" + a + ")", nil
		}
	case "id":
		if n.Text == "true" || n.Text == "false" {
			return n.Text, nil
		}
		return g.ident(n.Text, old)
	case "forall", "exists":
		if n.Args[0] == nil || len(n.Vars) != 1 {
			return "", fmt.Errorf("unbounded quantifier")
		}
		lo, err := g.intExpr(n.Args[0], old)
		if err != nil {
			return "", err
		}
		hi, err := g.intExpr(n.Args[1], old)
		if err != nil {
			return "", err
		}
		if g.bound == nil {
			g.bound = map[string]bool{}
		}
		g.bound[n.Vars[0]] = true
		body, err := g.boolExpr(n.Args[2], old)
		delete(g.bound, n.Vars[0])
		if err != nil {
			return "", err
		}
		if n.Op == "forall" {
			return fmt.Sprintf("func() bool { for %s := %s; %s < %s; %s++ { if !(%s) { return false } }; return true }()", n.Vars[0], lo, n.Vars[0], hi, n.Vars[0], body), nil
		}
		return fmt.Sprintf("func() bool { for %s := %s; %s < %s; %s++ { if %s { return true } }; return false }()", n.Vars[0], lo, n.Vars[0], hi, n.Vars[0], body), nil
	case "call":
		if n.Text == "old" {
			return g.boolExpr(n.Args[0], true)
		}
		if n.Text == "ite" && len(n.Args) == 3 {
			return g.iteExpr(n, old, g.boolExpr, "bool")
		}
		if sf := g.userSpec(n.Text); sf != nil {
			body, err := g.unfold(sf, n)
			if err != nil {
				return "", err
			}
			g.depth++
			defer func() { g.depth-- }()
			return g.boolExpr(body, old)
		}
	}
	return "", fmt.Errorf("not executable: %s", n.String())
}

func (g *goTranslator) isBool(n *SNode) bool {
	switch n.Op {
	case "id":
		if n.Text == "true" || n.Text == "false" {
			return true
		}
		if t, ok := g.ptypes[n.Text]; ok {
			return classify(t) == tcBool
		}
		if k := g.resultIndex(n.Text); k >= 0 {
			return classify(g.sig.Results().At(k).Type()) == tcBool
		}
	case "bin":
		switch n.Text {
		case "&&", "||", "==>", "==", "!=", "<", "<=", ">", ">=":
			return true
		}
	case "un":
		return n.Text == "!"
	case "forall", "exists":
		return true
	case "call":
		if n.Text == "old" && len(n.Args) == 1 {
			return g.isBool(n.Args[0])
		}
		if n.Text == "ite" && len(n.Args) == 3 {
			return g.isBool(n.Args[1])
		}
		if sf := g.userSpec(n.Text); sf != nil {
			return sf.Result == "bool"
		}
	}
	return false
}

func (g *goTranslator) resultIndex(name string) int {
	if name == "result" {
		return 0
	}
	if strings.HasPrefix(name, "result") {
		if k, err := strconv.Atoi(name[6:]); err == nil && k >= 1 && k <= len(g.results) {
			return k - 1
		}
	}
	for i := 0; i < g.sig.Results().Len(); i++ {
		if g.sig.Results().At(i).Name() == name && name != "" {
			return i
		}
	}
	return -1
}

func (g *goTranslator) ident(name string, old bool) (string, error) {
	if g.bound[name] {
		return name, nil
	}
	if k := g.resultIndex(name); k >= 0 {
		return g.results[k], nil
	}
	if t, ok := g.ptypes[name]; ok {
		if old && (classify(t) == tcSlice || classify(t) == tcTParamSeq) {
			return "old_" + name, nil
		}
		return name, nil
	}
	return "", fmt.Errorf("identifier %s not available in replay", name)
}

func (g *goTranslator) intExpr(n *SNode, old bool) (string, error) {
	switch n.Op {
	case "num":
		return "int64(" + n.Text + ")", nil
	case "char":
		return "int64(" + n.Text + ")", nil
	case "id":
		s, err := g.ident(n.Text, old)
		if err != nil {
			return "", err
		}
		if g.bound[n.Text] {
			return s, nil
		}
		return "govcToI(" + s + ")", nil
	case "bin":
		switch n.Text {
		case "+", "-", "*", "/", "%":
			a, err := g.intExpr(n.Args[0], old)
			if err != nil {
				return "", err
			}
			b, err := g.intExpr(n.Args[1], old)
			if err != nil {
				return "", err
			}
			return "(" + a + " " + n.Text + " " + b + ")", nil
		case "<<":
			a, err := g.intExpr(n.Args[0], old)
			if err != nil {
				return "", err
			}
			b, err := g.intExpr(n.Args[1], old)
			if err != nil {
				return "", err
			}
			return "(" + a + " << uint(" + b + "))", nil
		}
	case "un":
		if n.Text == "-" {
			a, err := g.intExpr(n.Args[0], old)
			if err != nil {
				return "", err
			}
			return "(-" + a + ")", nil
		}
	case "index":
		base, err := g.seqExpr(n.Args[0], old)
		if err != nil {
			return "", err
		}
		i, err := g.intExpr(n.Args[1], old)
		if err != nil {
			return "", err
		}
		return "govcToI(" + base + "[" + i + "])", nil
	case "call":
		switch n.Text {
		case "len", "cap":
			base, err := g.seqExpr(n.Args[0], old)
			if err != nil {
				return "", err
			}
			return "int64(" + n.Text + "(" + base + "))", nil
		case "old":
			return g.intExpr(n.Args[0], true)
		case "int", "int64", "uint64", "uint", "byte", "uint8", "uint16", "uint32", "int32", "rune":
			return g.intExpr(n.Args[0], old)
		case "ite":
			if len(n.Args) == 3 {
				return g.iteExpr(n, old, g.intExpr, "int64")
			}
		case "runeAt", "widthAt":
			if len(n.Args) == 2 {
				base, err := g.seqExpr(n.Args[0], old)
				if err != nil {
					return "", err
				}
				i, err := g.intExpr(n.Args[1], old)
				if err != nil {
					return "", err
				}
				f := "govcRuneAt"
				if n.Text == "widthAt" {
					f = "govcWidthAt"
				}
				return f + "(" + base + ", " + i + ")", nil
			}
		}
		if sf := g.userSpec(n.Text); sf != nil && sf.Result != "bool" {
			body, err := g.unfold(sf, n)
			if err != nil {
				return "", err
			}
			g.depth++
			defer func() { g.depth-- }()
			return g.intExpr(body, old)
		}
	}
	return "", fmt.Errorf("not executable: %s", n.String())
}

func (g *goTranslator) seqExpr(n *SNode, old bool) (string, error) {
	switch n.Op {
	case "id":
		return g.ident(n.Text, old)
	case "call":
		if n.Text == "old" {
			return g.seqExpr(n.Args[0], true)
		}
	case "slice":
		base, err := g.seqExpr(n.Args[0], old)
		if err != nil {
			return "", err
		}
		lo, hi := "", ""
		if n.Args[1] != nil {
			if lo, err = g.intExpr(n.Args[1], old); err != nil {
				return "", err
			}
		}
		if n.Args[2] != nil {
			if hi, err = g.intExpr(n.Args[2], old); err != nil {
				return "", err
			}
		}
		return base + "[" + lo + ":" + hi + "]", nil
	}
	return "", fmt.Errorf("not a sequence: %s", n.String())
}
