#!/usr/bin/env python3
"""Engine canaries: correct contracts must verify, wrong ones must NOT (whatever stage of the solver portfolio answers).
Run at setup (selfcheck.sh) and after every engine change."""
import os, re, subprocess, sys
here = os.path.dirname(os.path.abspath(__file__))
env = dict(os.environ, GOFLAGS="-mod=mod", GOPROXY="off", GOSUMDB="off", GOTOOLCHAIN="local")
out = subprocess.run([os.path.join(here, "..", "engine", "govc"), "func", "-repo", os.path.join(here, "repo"), "-pkg", "t",
                      "-timeout", "10", "-v"], capture_output=True, text=True, env=env).stdout
status = {}
for line in out.splitlines():
    m = re.match(r"\s+(proved|failed|unknown)\s+(t\.\S+)", line)
    if m:
        status.setdefault(m.group(2), []).append(m.group(1))
bad = []
def all_proved(fn):
    obs = {k: v for k, v in status.items() if k.startswith("t." + fn + "/")}
    if not obs or any(s != "proved" for v in obs.values() for s in v):
        bad.append("%s: expected every obligation to be proved, got %s" % (fn, {k: v for k, v in obs.items() if v != ["proved"]} or "no obligations"))
def not_proved(ob):
    v = status.get(ob)
    if not v or all(s == "proved" for s in v):
        bad.append("%s: must NOT be proved, got %s" % (ob, v))
all_proved("AddOne")
all_proved("SumTo")
not_proved("t.WrongPost/post/ensures1")
not_proved("t.Vacuous/pre-sat")
not_proved("t.OutOfBounds/bounds/index(a[i]).c1")
not_proved("t.OutOfBounds/bounds/index(a[i]).c2")
not_proved("t.BadInv/inv-preserved/loop1/inv1.c2")
not_proved("t.Long/post/ensures1")
not_proved("t.AllZero/post/ensures1")
if bad:
    print("engine selftest FAILED:")
    for b in bad:
        print("  " + b)
    print(out[-3000:])
    sys.exit(1)
print("engine selftest ok (%d obligations in the canary corpus)" % sum(len(v) for v in status.values()))
