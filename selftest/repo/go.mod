module selftest

go 1.23
