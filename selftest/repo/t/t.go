// Package t is the engine's must-pass / must-fail canary corpus (see /verif/selftest/run.py).
package t

// AddOne: a correct contract that must verify.
func AddOne(x int) int { return x + 1 }

// WrongPost: the postcondition is false; the engine must report it as failed with a model.
func WrongPost(x int) int { return x + 1 }

// Vacuous: contradictory precondition; the vacuity guard must flag it.
func Vacuous(x int) int { return x }

// OutOfBounds: a[i] with i == len(a) possible; the bounds obligation must fail.
func OutOfBounds(a []int, i int) int {
	if i <= len(a) {
		return a[i]
	}
	return 0
}

// SumTo: correct loop with invariant; must verify.
func SumTo(n int) int {
	s := 0
	for i := 0; i < n; i++ {
		s += 1
	}
	return s
}

// BadInv: the invariant is not preserved; must fail.
func BadInv(n int) int {
	s := 0
	for i := 0; i < n; i++ {
		s += 2
	}
	return s
}

// Long: more than 60 facts before a false postcondition; the fact-slice stage must not "prove" it.
func Long(a []int) int {
	s := 0
	if len(a) < 40 {
		return 0
	}
	s += a[0]
	s += a[1]
	s += a[2]
	s += a[3]
	s += a[4]
	s += a[5]
	s += a[6]
	s += a[7]
	s += a[8]
	s += a[9]
	s += a[10]
	s += a[11]
	s += a[12]
	s += a[13]
	s += a[14]
	s += a[15]
	s += a[16]
	s += a[17]
	s += a[18]
	s += a[19]
	s += a[20]
	s += a[21]
	s += a[22]
	s += a[23]
	s += a[24]
	s += a[25]
	s += a[26]
	s += a[27]
	s += a[28]
	s += a[29]
	s += a[30]
	s += a[31]
	s += a[32]
	s += a[33]
	s += a[34]
	s += a[35]
	return s
}

// AllZero: quantified postcondition that is false (only a prefix is cleared); must not be proved.
func AllZero(a []int) {
	for i := 0; i+1 < len(a); i++ {
		a[i] = 0
	}
}
