//go:build verif

package t

//@ func AddOne
//@   requires x < 100
//@   ensures result == x + 1

//@ func WrongPost
//@   requires x < 100
//@   ensures result == x + 2

//@ func Vacuous
//@   requires x > 0 && x < 0
//@   ensures result == 7

//@ func OutOfBounds
//@   ensures true

//@ func SumTo
//@   requires 0 <= n && n < 1000
//@   ensures result == n
//@   loop 1:
//@     invariant 0 <= i && i <= n && s == i
//@     decreases n - i

//@ func BadInv
//@   requires 0 <= n && n < 1000
//@   ensures result == n
//@   loop 1:
//@     invariant 0 <= i && i <= n && s == i
//@     decreases n - i

//@ func Long
//@   requires forall k in 0..len(a): 0 <= a[k] && a[k] < 1000
//@   ensures result == 1

//@ func AllZero
//@   modifies a[0:len(a)]
//@   ensures forall k in 0..len(a): a[k] == 0
//@   loop 1:
//@     invariant 0 <= i && forall k in 0..i: a[k] == 0
//@     decreases len(a) - i
