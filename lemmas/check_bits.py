#!/usr/bin/env python3
"""Proves, over 64-bit vectors, the bit-level lemmas whose integer images govc adds as facts
(engine/expr.go singleBitOp). Every query must be unsat. Run by selfcheck.sh at setup."""
import subprocess, sys, tempfile, os, concurrent.futures

def bit(w, j): return f"((_ extract 0 0) (bvlshr {w} {j}))"
POP = "(define-fun pc ((w (_ BitVec 64))) (_ BitVec 64) (bvadd " + " ".join(f"((_ zero_extend 63) ((_ extract {i} {i}) w))" for i in range(64)) + "))"
HEAD = "(set-logic QF_BV)\n(declare-const w (_ BitVec 64))\n(declare-const v (_ BitVec 64))\n(declare-const k (_ BitVec 64))\n(declare-const j (_ BitVec 64))\n" + POP + "\n"
one = "#x0000000000000001"
queries = {}
rng = "(assert (bvult k #x0000000000000040))\n(assert (bvult j #x0000000000000040))\n"
setw = f"(bvor w (bvshl {one} k))"
clrw = f"(bvand w (bvnot (bvshl {one} k)))"
queries["set-bit-per-bit"] = HEAD + rng + f"(assert (not (= {bit(setw,'j')} (ite (= j k) #b1 {bit('w','j')}))))\n(check-sat)\n"
queries["clear-bit-per-bit"] = HEAD + rng + f"(assert (not (= {bit(clrw,'j')} (ite (= j k) #b0 {bit('w','j')}))))\n(check-sat)\n"
queries["test-bit"] = HEAD + rng + f"(assert (not (= (= (bvand w (bvshl {one} k)) #x0000000000000000) (= {bit('w','k')} #b0))))\n(check-sat)\n"
queries["and-per-bit"] = HEAD + rng + f"(assert (not (= {bit('(bvand w v)','j')} (ite (= {bit('v','j')} #b1) {bit('w','j')} #b0))))\n(check-sat)\n"
queries["or-per-bit"] = HEAD + rng + f"(assert (not (= {bit('(bvor w v)','j')} (ite (= {bit('v','j')} #b1) #b1 {bit('w','j')}))))\n(check-sat)\n"
queries["andnot-per-bit"] = HEAD + rng + f"(assert (not (= {bit('(bvand w (bvnot v))','j')} (ite (= {bit('v','j')} #b1) #b0 {bit('w','j')}))))\n(check-sat)\n"
queries["pc-range"] = HEAD + "(assert (not (bvule (pc w) #x0000000000000040)))\n(check-sat)\n"
queries["pc-zero"] = HEAD + "(assert (not (= (pc #x0000000000000000) #x0000000000000000)))\n(check-sat)\n"
# popcount lemmas, case split over the bit index (a symbolic shift amount makes them slow)
for kk in range(64):
    kc = "#x%016x" % kk
    s = f"(bvor w (bvshl {one} {kc}))"
    c = f"(bvand w (bvnot (bvshl {one} {kc})))"
    b = bit('w', kc)
    queries[f"pc-set-{kk}"] = HEAD + f"(assert (not (= (pc {s}) (ite (= {b} #b1) (pc w) (bvadd (pc w) {one})))))\n(check-sat)\n"
    queries[f"pc-clear-{kk}"] = HEAD + f"(assert (not (= (pc {c}) (ite (= {b} #b1) (bvsub (pc w) {one}) (pc w)))))\n(check-sat)\n"
# x & m == x mod (m+1) for m+1 a power of two (32- and 64-bit), case split over the exponent
for e in range(0, 64):
    m = "#x%016x" % ((1 << e) - 1)
    p = "#x%016x" % (1 << e)
    queries[f"mask-mod-{e}"] = HEAD + f"(assert (not (= (bvand w {m}) (bvurem w {p}))))\n(check-sat)\n"
# disjoint or = add
for e in range(0, 63):
    p = "#x%016x" % (1 << e)
    queries[f"or-add-{e}"] = HEAD + f"(assert (= (bvurem w {p}) #x0000000000000000))\n(assert (bvult v {p}))\n(assert (not (= (bvor w v) (bvadd w v))))\n(check-sat)\n"

def run(item):
    name, text = item
    with tempfile.NamedTemporaryFile("w", suffix=".smt2", delete=False) as f:
        f.write(text)
        path = f.name
    try:
        out = subprocess.run(["z3-new", "-T:120", path], capture_output=True, text=True).stdout.strip().split("\n")[0]
    finally:
        os.unlink(path)
    return name, out

bad = []
with concurrent.futures.ThreadPoolExecutor(max_workers=16) as ex:
    for name, out in ex.map(run, queries.items()):
        if out != "unsat":
            bad.append((name, out))
print(f"bit lemmas: {len(queries)} queries, {len(queries)-len(bad)} unsat")
for b in bad:
    print("  NOT PROVED:", b)
sys.exit(1 if bad else 0)
